"""C14 - outputs are a deterministic function of the input (cross-process,
cross-hash-seed byte comparison of recorded outputs)."""
import hashlib
import os
import random
import shutil
import subprocess
import sys
import tempfile

from vmon import core, gen2d, mon2d
from vmon.oracles import o2d

ID = "C14"
LEVEL = "exploration"
RULE = (
    "cases: (tool, options, input) triples - annotator (default / -a / -e / --csv --json --bpseq --stems-csv --inter-stem-csv, "
    "with and without -f), motif_extractor, splitter (PDB and mmCIF output), clashfinder --csv, transformer, adapter, unifier and "
    "library scripts printing all_dot_brackets/elements/Mapping2D3D outputs in list order and the adapter's library entry point fed with pair lists "
    "that give residues several canonical partners of the same rank - over corpus structures and generated "
    "knotted BPSEQ files; each is executed in fresh interpreters under PYTHONHASHSEED in {0,1,2} (quick) / {0,1,2,4242,random,random} "
    "(thorough) and twice in-process; stdout and every output file are compared byte for byte. Non-trivial = the first run "
    "produced at least 1 non-empty output; distinct = canonical JSON hash of the triple."
)
ASSUMPTIONS = ["interpreter start-up and third-party libraries are deterministic given the hash seed", "outputs are written relative to a scratch cwd so paths do not differ"]
REQUIRED_CLAUSES = ["outputs.byte-identical-across-seeds", "outputs.inprocess-repeat-identical", "outputs.same-in-a-row-as-in-a-fresh-interpreter"]
SHARDS = {"quick": 16, "thorough": 16}
_cur = {}


def setup(rec, reach):
    _cur["rec"] = rec


def _corpus():
    d = os.path.join(core.REPO, "tests")
    out = []
    for fn in sorted(os.listdir(d)):
        if fn.endswith((".cif", ".pdb", ".cif.gz")) and os.path.getsize(os.path.join(d, fn)) > 0:
            out.append("tests/" + fn)
    return out


def cases(shard, nshards, seed, tier):
    k = 0

    def mine():
        nonlocal k
        k += 1
        return (k - 1) % nshards == shard

    corpus = _corpus()
    rng = random.Random(f"{seed}:C14:corpus")
    # quick: the structures with the most contested contacts / stems always, plus a random few
    always = ["tests/1ehz-assembly-1.cif", "tests/4qln.cif", "tests/8btk_B7.cif", "tests/1gid.cif.gz"]
    pick = corpus if tier == "thorough" else sorted(set(always + rng.sample([c for c in corpus if c not in always and not c.endswith(("2HY9.cif", "6RS3.cif", "1a9n.cif", "6g90_1.cif"))], 4)))
    for inp in pick:
        variants = [
            ("annotator", ["-a", "{in}"]),
            ("annotator", ["-e", "-f", "{in}"]),
            ("annotator", ["--csv", "o.csv", "--json", "o.json", "--bpseq", "o.bpseq", "--stems-csv", "s.csv", "--inter-stem-csv", "i.csv", "{in}"]),
            ("lib3d", ["{in}", "0"]),
        ]
        if tier == "thorough":
            variants += [("annotator", ["{in}"]), ("lib3d", ["{in}", "1"]), ("annotator", ["-f", "--pml", "o.pml", "{in}"])]
        if not inp.endswith(".gz") and os.path.getsize(os.path.join(core.REPO, inp)) < 250_000:
            variants += [("writecif", ["{in}"])]
        if not inp.endswith(".gz"):
            variants += [("clashfinder", ["--ignore-occupancy", "--enable-molprobity-mode", "{in}"]), ("splitter", ["-o", "out", "-f", "mmCIF", "{in}"]), ("splitter", ["-o", "out", "-f", "PDB", "{in}"])]
            if inp.endswith(".cif"):
                variants += [("transformer", ["{in}", "o.cif", "--category", "atom_site", "--replace", "auth_asym_id", "--values", "ABCDEFGHIJKLMNOPQRSTUVWXYZabcdefghijklmnopqrstuvwxyz0123456789"]),
                             ("unifier", ["-o", "out", "-f", "PDB", "{in}", "{in}"]), ("unifier", ["-o", "out", "-f", "mmCIF", "{in}", "{in}"])]
        for mod, argv in variants:
            if mine():
                yield {"family": f"cli-{mod}", "module": mod, "argv": argv, "input": inp}
    if mine():
        yield {"family": "cli-adapter", "module": "adapter", "argv": ["{in}", "--external", "{repo}/tests/184D-fr3d.txt", "--tool", "fr3d", "-a", "--csv", "o.csv"], "input": "tests/184D.cif"}
    # an external tool's pair list with same-rank conflicts (a residue with two canonical partners)
    for inp in ["tests/488d.pdb", "tests/1ehz-assembly-1.cif", "tests/4qln.cif", "tests/1E7K_1_C.cif", "tests/6INQ.cif"] + (["tests/8btk_B7.cif", "tests/1DFU_1_M-N.cif", "tests/4WTI_1_T-P.cif"] if tier == "thorough" else []):
        for t in range(2 if tier == "quick" else 6):
            if mine():
                yield {"family": "lib-external-conflicts", "module": "external_conflicts", "argv": ["{in}", f"{seed}:{inp}:{t}"], "input": inp}
            if t == 0 and mine():
                # the same structure's interactions as an FR3D listing with repeated rows, through the adapter
                yield {"family": "lib-fr3d-listing-with-repeated-rows", "module": "fr3d_listing", "argv": ["{in}", f"{seed}:{inp}:fr3d"], "input": inp}
    # a residue whose name gives no letter and whose base atoms fit two bases equally (pyrimidine without O4/N4)
    for t in range(2 if tier == "quick" else 6):
        if mine():
            yield {"family": "cli-annotator-ambiguous-base", "module": "annotator", "argv": ["--csv", "o.csv", "--json", "o.json", "{in}"], "ambiguous": t}
    # a hairpin whose authors number it from 0 (labels from 1), with an external pair list in which nucleotides 0 and 1
    # compete for one partner
    for t in range(2 if tier == "quick" else 6):
        if mine():
            yield {"family": "lib-external-conflicts-numbered-from-zero", "module": "external_conflicts", "argv": ["{in}", f"{seed}:zero:{t}"], "zero_based": "tests/1A1T_1_B.cif"}
    # chains whose names differ by letter case only (A / a, B / b: a duplex and a displaced copy of it, numbered alike):
    # the external list pairs a nucleotide with the equally numbered residues of both
    for t in range(2 if tier == "quick" else 6):
        if mine():
            yield {"family": "lib-external-conflicts-chains-differing-by-case", "module": "external_conflicts", "argv": ["{in}", f"{seed}:case:{t}"], "case_twins": "tests/1DFU_1_M-N.cif"}
    # uridines presented as thymidines (DT): the thymine rows of the edge / donor / acceptor tables decide, with the
    # many non-canonical pairs of tRNA and riboswitch folds
    for src in ("tests/1ehz-assembly-1.cif", "tests/4qln.cif", "tests/1E7K_1_C.cif"):
        if mine():
            yield {"family": "cli-annotator-u-as-dt", "module": "annotator", "argv": ["--csv", "o.csv", "--json", "o.json", "-e", "{in}"], "u_as_dt": src}
    # one interpreter handling several inputs in a row vs a fresh interpreter per input
    for i in range(6 if tier == "quick" else 60):
        if mine():
            yield {"family": "batch-vs-single-2d", "module": "lib2d_batch", "i": i}
    for i in range(2 if tier == "quick" else 10):
        if mine():
            yield {"family": "batch-vs-single-3d", "module": "lib3d_batch", "i": i}
    for i in range(1 if tier == "quick" else 4):
        if mine():
            yield {"family": "batch-vs-single-transformer", "module": "transform_batch", "i": i}
    for i in range(2 if tier == "quick" else 8):
        if mine():
            yield {"family": "batch-vs-single-convert", "module": "convert_batch", "i": i}
    # one group of eight mutually crossing helices of two pairs: the list of all notations has 8! = 40320 members
    if mine():
        kk, L = 8, 2
        yield {"family": "lib2d-eight-crossing-helices", "module": "lib2d", "n": 2 * kk * (L + 1),
               "pairs": sorted((s_ * (L + 1) + q + 1, kk * (L + 1) + s_ * (L + 1) + (L - q)) for s_ in range(kk) for q in range(L))}
    nb = 20 if tier == "quick" else 200
    for i in range(nb):
        if not mine():
            continue
        rng = random.Random(f"{seed}:C14:b:{i}")
        off = 0
        allp = []
        for blk in range(rng.randint(1, 3)):
            n, pairs = gen2d.random_stems(rng, rng.randint(2, 5), maxlen=rng.choice([1, 2, 4]), spacer=(0, 2), shape=rng.choice([None, "ladder", "chain"]))
            allp += [(a + off, b + off) for a, b in pairs]
            off += n
        yield {"family": "lib2d-generated", "module": "lib2d", "n": off, "pairs": sorted(allp)}
        if i % 4 == 0:
            yield {"family": "cli-motif_extractor", "module": "motif_extractor", "n": off, "pairs": sorted(allp)}


MARKER = "VMON-SOLVER-FAILURE-NOBODY-INJECTED"


def _run(case, hashseed, workdir, inputs, _again=True):
    outs, err = _run_once(case, hashseed, workdir, inputs)
    if MARKER in err and _again:
        # the MILP solver's child process failed in that interpreter although nothing injected a fault (killed or
        # starved on a loaded machine): what the tool printed is the documented fall-back, not its normal answer.
        # That run is repeated once; a failure the code causes shows again
        _cur["rec"].count("note:run-repeated-after-a-solver-failure-nobody-injected")
        outs, err = _run_once(case, hashseed, workdir, inputs)
    return outs, err


def _run_once(case, hashseed, workdir, inputs):
    env = dict(os.environ)
    env["PYTHONHASHSEED"] = str(hashseed)
    env["LOGLEVEL"] = "CRITICAL"
    env["VERIF_REPO"] = core.REPO
    cwd = tempfile.mkdtemp(prefix="c14-", dir=workdir)
    argv = [a.replace("{in}", inputs["in"]).replace("{repo}", core.REPO) for a in case.get("argv", [])]
    if case["module"] == "lib2d":
        argv = [inputs["in"]]
    if case["module"] == "motif_extractor":
        argv = ["--bpseq", inputs["in"]]
    p = subprocess.run([sys.executable, "-m", "vmon.launch", case["module"]] + argv, cwd=cwd, env=env, capture_output=True, text=True, timeout=600)
    outs = {"<stdout>": p.stdout, "<rc>": str(p.returncode)}
    for root, _, files in os.walk(cwd):
        for fn in sorted(files):
            path = os.path.join(root, fn)
            try:
                outs[os.path.relpath(path, cwd)] = open(path, errors="replace").read()
            except Exception as e:
                outs[os.path.relpath(path, cwd)] = f"<unreadable {e}>"
    shutil.rmtree(cwd, ignore_errors=True)
    return outs, p.stderr[-800:] + (MARKER if MARKER in p.stderr else "")


def _batch_case(case, rec):
    """The same inputs once in one interpreter (in a row) and once in a fresh interpreter each."""
    seed = os.environ.get("VERIF_SEED", "0")
    workdir = tempfile.mkdtemp(prefix="vmon-c14b-")
    try:
        rng = random.Random(f"{seed}:C14:batch:{case['family']}:{case['i']}")
        paths = []
        if case["module"] == "lib2d_batch":
            # related structures: the same crossing pattern with different stem lengths, the same
            # stems with another sequence / another 3' tail, plus unrelated ones
            structs = []
            a, b = rng.randint(1, 3), rng.randint(3, 6)
            for la, lb in ((a, b), (b, a), (a, a)):
                toks = [0, 1, 0, 1]
                n1, p1 = _stems_from_tokens(toks, [la, lb], gap=2)
                structs.append((n1, p1))
            n1, p1 = structs[0]
            structs.append((n1 + 3, p1))
            for _ in range(2):
                structs.append(gen2d.random_stems(rng, rng.randint(2, 5), maxlen=4, spacer=(0, 2), shape=rng.choice([None, "chain", "ladder"])))
            rng.shuffle(structs)
            for k, (n, pairs) in enumerate(structs):
                pth = os.path.join(workdir, f"in{k}.bpseq")
                seqshift = rng.randint(0, 3)
                b_ = mon2d.make_bpseq(n, pairs, "".join("ACGU"[(i + seqshift) % 4] for i in range(n)))
                open(pth, "w").write(str(b_) + "\n")
                paths.append(pth)
            single = "lib2d_batch"
        elif case["module"] == "transform_batch":
            # files with different chain sets / first-appearance orders, edited in a row
            cifs = [f for f in _corpus() if f.endswith(".cif") and os.path.getsize(os.path.join(core.REPO, f)) < 250_000]
            first = [f for f in cifs if f.endswith(("4gqj-assembly1.cif", "4WTI_1_T-P.cif", "1DFU_1_M-N.cif"))]
            paths = [os.path.join(core.REPO, f) for f in [rng.choice(first)] + rng.sample([f for f in cifs if f not in first], 3)]
            single = "transform_batch"
        elif case["module"] == "convert_batch":
            # format conversion in a row: files that need fitting to PDB limits (multi-character chains) with author
            # atom / residue names, files that have label names only (8btk_B7), files that fit as they are, PDB files
            need = ["tests/184D.cif", "tests/4gqj-assembly1.cif"]
            label_only = ["tests/8btk_B7.cif"]
            rest = [f for f in _corpus() if f not in need + label_only and not f.endswith(".gz") and os.path.getsize(os.path.join(core.REPO, f)) < 250_000]
            chosen = [need[case["i"] % 2]] + label_only + rng.sample(rest, 2)
            if case["i"] % 4 >= 2:
                chosen = chosen[1:2] + chosen[:1] + chosen[2:]
            paths = [os.path.join(core.REPO, f) for f in chosen if os.path.exists(os.path.join(core.REPO, f))]
            single = "convert_batch"
        else:
            files = [f for f in _corpus() if os.path.getsize(os.path.join(core.REPO, f)) < 400_000]
            paths = [os.path.join(core.REPO, f) for f in rng.sample(files, 2)]
            # ... and another conformation of a multi-stem structure (same identifiers and numbering,
            # slightly different coordinates), as frames of a trajectory or models of an ensemble are
            from vmon import emit, gen3d

            core.setup_path()
            src = rng.choice(["tests/1ehz-assembly-1.cif", "tests/4qln.cif", "tests/1E7K_1_C.cif", "tests/1DFU_1_M-N.cif", "tests/488d.pdb"])
            base = gen3d.load(src)
            for k, sg in enumerate((0.0, 0.08)):
                conf = gen3d.apply_ops(base, [{"op": "jitter", "seed": f"{seed}:C14:conf:{case['i']}:{k}", "sigma": sg}]) if sg else base
                rows = emit.rows_from_structure(conf)
                pth = os.path.join(workdir, f"conf{k}.cif")
                open(pth, "w").write(emit.emit_cif(rows))
                paths.append(pth)
                if k == 0:
                    # ... and a copy whose atoms are moved by a few 1e-4 A (the same entry re-exported with five decimals
                    # by another program): every derived number is almost, but not exactly, the same
                    near = gen3d.apply_ops(base, [{"op": "jitter", "seed": f"{seed}:C14:near:{case['i']}", "sigma": 0.0003}])
                    pth = os.path.join(workdir, "conf0-almost-the-same.cif")
                    open(pth, "w").write(emit.emit_cif(emit.rows_from_structure(near, decimals=5), decimals=5))
                    paths.append(pth)
            # two inputs that use one non-standard residue name (UNK) for different bases: a guanosine in the first,
            # a cytidine in the second (names of unknown components are not unique across files)
            src2 = gen3d.load("tests/1ATO.pdb")
            rows0 = emit.rows_from_structure(src2)
            keys = []
            for r in rows0:
                kq = (r["chain"], r["resseq"], r["icode"], r["resname"])
                if kq not in keys:
                    keys.append(kq)
            gs, cs = [kq for kq in keys if kq[3] == "G"], [kq for kq in keys if kq[3] == "C"]
            if gs and cs:
                for nm, victim in (("unk-is-a-guanosine.pdb", rng.choice(gs)), ("unk-is-a-cytidine.pdb", rng.choice(cs))):
                    rws = [dict(r, resname="UNK", rec="HETATM") if (r["chain"], r["resseq"], r["icode"], r["resname"]) == victim else dict(r) for r in rows0]
                    pth = os.path.join(workdir, nm)
                    open(pth, "w").write(emit.emit_pdb(rws))
                    paths.append(pth)
            rng.shuffle(paths)
            # the nearly identical copy is handled right after the original
            o, nr = os.path.join(workdir, "conf0.cif"), os.path.join(workdir, "conf0-almost-the-same.cif")
            if nr in paths:
                paths.remove(nr)
                paths.insert(paths.index(o) + 1, nr)
            single = "lib3d_batch"
        env = dict(os.environ, PYTHONHASHSEED="0", LOGLEVEL="CRITICAL", VERIF_REPO=core.REPO)

        def run(argv):
            for attempt in (0, 1):
                p = subprocess.run([sys.executable, "-m", "vmon.launch", single] + argv, cwd=workdir, env=env, capture_output=True, text=True, timeout=900)
                if MARKER not in p.stderr:
                    break
                rec.count("note:run-repeated-after-a-solver-failure-nobody-injected")
            return p.stdout, p.returncode

        out_all, rc = run(paths)
        sections = out_all.split("### ")[1:]
        rec.mark_nontrivial(bool(sections))
        diff = None
        for k, pth in enumerate(paths):
            o1, rc1 = run([pth])
            want = o1.split("### ")[1:]
            want = want[0].split("\n", 1)[1] if want else ""
            got = sections[k].split("\n", 1)[1] if k < len(sections) else None
            if got != want:
                la, lb = (want or "").splitlines(), (got or "").splitlines()
                idx = next((i for i, (x, y) in enumerate(zip(la, lb)) if x != y), min(len(la), len(lb)))
                diff = {"input": k, "line": idx + 1, "fresh-interpreter": la[idx][:160] if idx < len(la) else None, "in-a-row": lb[idx][:160] if idx < len(lb) else None,
                        "inputs": [open(p).read()[:400] for p in paths] if case["module"] == "lib2d_batch" else paths}
                break
        rec.check("outputs.same-in-a-row-as-in-a-fresh-interpreter", diff is None, lambda: {"case": case, "diff": diff}, mechanism=None)
        rec.count("runs", len(paths) + 1)
    finally:
        shutil.rmtree(workdir, ignore_errors=True)


def _stems_from_tokens(toks, lens, gap=1):
    pos, first, pairs = 1, {}, []
    for t in toks:
        L = lens[t]
        if t in first:
            a = first[t]
            for q in range(L):
                pairs.append((a + q, pos + L - 1 - q))
        else:
            first[t] = pos
        pos += L + gap
    return pos - 1, sorted(pairs)


def run_case(case, rec):
    if case["family"].startswith("batch-vs-single"):
        return _batch_case(case, rec)
    seeds = [0, 1, 2] if os.environ.get("VERIF_TIER_EFFECTIVE", _cur.get("tier", "quick")) == "quick" else [0, 1, 2, 4242, "random", "random"]
    workdir = tempfile.mkdtemp(prefix="vmon-c14-")
    try:
        if "zero_based" in case:
            from vmon import emit, gen3d

            core.setup_path()
            rows = emit.rows_from_structure(gen3d.load(case["zero_based"]))
            low = min(r["resseq"] for r in rows)
            for r in rows:
                r["resseq"] -= low
            inp = os.path.join(workdir, "numbered-from-zero.cif")
            open(inp, "w").write(emit.emit_cif(rows, label_seq="index"))
        elif "case_twins" in case:
            from vmon import emit, gen3d

            core.setup_path()
            rows = emit.rows_from_structure(gen3d.load(case["case_twins"]))
            names = {}
            for r in rows:
                names.setdefault(r["chain"], "ABCDEFGH"[len(names)])
            first = [dict(r, chain=names[r["chain"]]) for r in rows]
            copy = [dict(r, chain=r["chain"].lower(), x=round(r["x"] + 70.0, 3), y=round(r["y"] - 45.0, 3)) for r in first]
            rows = first + copy
            for i, r in enumerate(rows, 1):
                r["serial"] = i
            inp = os.path.join(workdir, "chains-differing-by-case.cif")
            open(inp, "w").write(emit.emit_cif(rows, label_seq="index"))
        elif "u_as_dt" in case:
            from vmon import emit, gen3d

            core.setup_path()
            src = gen3d.load(case["u_as_dt"])
            # every residue whose one-letter name is U - modified uridines included - is named DT
            us = {(r.auth.chain, r.auth.number, r.auth.icode) for r in src.residues if r.auth is not None and r.one_letter_name == "U"}
            rows = emit.rows_from_structure(src)
            for r in rows:
                if (r["chain"], r["resseq"], r["icode"]) in us:
                    r["resname"] = "DT"
            inp = os.path.join(workdir, "u-as-dt.cif")
            open(inp, "w").write(emit.emit_cif(rows))
        elif "ambiguous" in case:
            from vmon import emit, gen3d

            core.setup_path()
            rng = random.Random(f"C14:ambiguous:{case['ambiguous']}")
            src = gen3d.load(rng.choice(["tests/1ATO.pdb", "tests/1A1T_1_B.cif", "tests/1E7K_1_C.cif"]))
            rows = emit.rows_from_structure(src)
            pyr = sorted({(r["chain"], r["resseq"], r["icode"]) for r in rows if r["resname"] in ("U", "C")})
            victims = set(rng.sample(pyr, min(3, len(pyr))))
            out = []
            for r in rows:
                if (r["chain"], r["resseq"], r["icode"]) in victims:
                    if r["name"] in ("O4", "N4"):
                        continue
                    r = dict(r, resname=rng.choice(["PYO", "4SU", "ZEB"]) if False else "PYO", rec="HETATM")
                out.append(r)
            for k, r in enumerate(out, 1):
                r["serial"] = k
            inp = os.path.join(workdir, "ambiguous.pdb")
            open(inp, "w").write(emit.emit_pdb(out))
        elif "pairs" in case:
            b = mon2d.make_bpseq(case["n"], [tuple(p) for p in case["pairs"]])
            inp = os.path.join(workdir, "input.bpseq")
            open(inp, "w").write(str(b) + "\n")
        else:
            inp = os.path.join(core.REPO, case["input"])
        runs = []
        for s in seeds:
            outs, err = _run(case, s, workdir, {"in": inp})
            runs.append((s, outs, err))
        base = runs[0][1]
        rec.mark_nontrivial(any(v.strip() for k, v in base.items() if k != "<rc>"))
        if base["<rc>"] != "0":
            rec.count(f"note:nonzero-exit:{case['module']}")
            rec.extra.setdefault("nonzero_exit", []).append({"module": case["module"], "input": case.get("input"), "stderr": runs[0][2][-300:]})
        diff = None
        for s, outs, err in runs[1:]:
            if outs != base:
                for k in sorted(set(outs) | set(base)):
                    a, b_ = base.get(k), outs.get(k)
                    if a != b_:
                        la, lb = (a or "").splitlines(), (b_ or "").splitlines()
                        idx = next((i for i, (x, y) in enumerate(zip(la, lb)) if x != y), min(len(la), len(lb)))
                        diff = {"output": k, "hashseed_a": runs[0][0], "hashseed_b": s, "line": idx + 1,
                                "a": la[idx][:200] if idx < len(la) else None, "b": lb[idx][:200] if idx < len(lb) else None,
                                "same-multiset-of-lines": sorted(la) == sorted(lb)}
                        break
                break
        mech = None
        if diff:
            mech = f"{case['module']}:{diff['output'].split('/')[-1].split('_model_')[0]}:{'reordered' if diff['same-multiset-of-lines'] else 'content'}"
        rec.check("outputs.byte-identical-across-seeds", diff is None, lambda: {"case": case, "diff": diff}, mechanism=mech)
        if case["module"] in ("lib2d", "lib3d", "external_conflicts", "fr3d_listing", "writecif") and base["<rc>"] == "0":
            rec.check("outputs.inprocess-repeat-identical", "INPROCESS-REPEAT-EQUAL True" in base["<stdout>"], lambda: {"case": case})
        rec.count(f"runs", len(runs))
    finally:
        shutil.rmtree(workdir, ignore_errors=True)


def classify(v):
    return v.get("mechanism")
