"""C20 - mmCIF item editing changes only its target; CLI output equals library result."""
import io
import os
import random
import sys
import tempfile
import contextlib

from vmon import core
from vmon.oracles import ciftok

ID = "C20"
LEVEL = "exploration"
RULE = (
    "cases: generated mmCIF documents (1-3 data blocks, 1-5 categories each, key-value and loop_, values plain/single-quoted/double-quoted/multi-word/"
    "multi-line/'?'/'.') and corpus mmCIF files x operation (copy_from_to onto an existing item, onto a new item, replace_value "
    "with alphabets longer/shorter than the number of distinct values, absent category, absent source item) x entry point "
    "(library function; transformer.main in-process with the same arguments). Input and output are parsed with an independent "
    "CIF tokenizer and compared as frames (category order, item lists, rows, row order). Non-trivial = the targeted category and "
    "source item exist and the category has >=1 row; distinct = canonical JSON hash."
)
ASSUMPTIONS = [
    "CIF tokenizer vmon/oracles/ciftok.py; for generated documents the abstract content is known, so a tokenizer/emitter disagreement is 'undecided', not a violation",
    "replace_value with more distinct values than alphabet symbols is outside the statement (skipped, counted)",
]
REQUIRED_MONITORS = ["transformer.copy_from_to", "transformer.replace_value", "transformer.main"]
REQUIRED_CLAUSES = ["copy.other-blocks-preserved", "replace.other-blocks-preserved", "copy.frame-preserved", "copy.target-equals-source", "replace.frame-preserved", "replace.mapping-injective-first-seen", "absent.untouched", "cli.equals-library", "cli.in-place-equals-library"]
LANDMARKS = {
    "copy-new-column": ("copy_from_to", "attributes.append(copy_to)"),
    "copy-existing": ("copy_from_to", "row[j] = row[i]"),
    "replace-first-seen": ("replace_value", "mapping[row[i]] = values[len(mapping)]"),
    "absent-category": ("copy_from_to", "return file_content"),
}
_cur = {}


def _frames(text_in, text_out):
    try:
        return ciftok.frame(text_in), ciftok.frame(text_out), None
    except ciftok.CifError as e:
        return None, None, str(e)


def _others_equal(fi, fo, cat, item, new_item):
    """Everything but (cat,item) preserved; returns (problem, mechanism)."""
    if sorted(fi["order"]) != sorted(fo["order"]):
        return f"category set changed: {fi['order'][:8]} -> {fo['order'][:8]}", None
    if fi["order"] != fo["order"]:
        # the statement lists categories, items, rows and row order - not the
        # order of categories in the file (the mmcif writer moves atom_site last)
        _cur["rec"].count("note:category-order-changed-by-writer")
    diffs = []
    for c in fi["order"]:
        ii, ri = fi["cats"][c]
        io_, ro = fo["cats"][c]
        want_items = ii + [item] if (new_item and c == cat) else ii
        if io_ != want_items:
            return f"item list of {c} changed: {ii} -> {io_}", None
        if len(ri) != len(ro):
            return f"row count of {c} changed {len(ri)} -> {len(ro)}", None
        t = want_items.index(item) if c == cat else -1
        for k, (a, b) in enumerate(zip(ri, ro)):
            aa = a + ["<new>"] if (new_item and c == cat) else a
            for j in range(len(want_items)):
                if j != t and aa[j] != b[j]:
                    diffs.append((c, k, want_items[j], aa[j], b[j]))
    if not diffs:
        return None, None
    c, k, it, a, b = diffs[0]
    msg = f"row {k} of {c}: untargeted item {it} changed {a!r} -> {b!r} ({len(diffs)} cell(s) differ)"
    if all(d[3] == "" and d[4] == "." for d in diffs):
        return msg, "empty-string-value-rewritten-as-dot"
    return msg, None


def _other_blocks(text_in, text_out):
    """Blocks after the first (the library edits the first block only) must be
    preserved: same count, names, categories, items, rows.  Returns
    (problem, mechanism, n_blocks)."""
    bi, bo = ciftok.frames(text_in), ciftok.frames(text_out)
    if len(bi) < 2 and len(bo) < 2:
        return None, None, len(bi)
    if [b["name"] for b in bi] != [b["name"] for b in bo]:
        return f"data blocks changed: {[b['name'] for b in bi]} -> {[b['name'] for b in bo]}", None, len(bi)
    diffs = []
    for a, b in zip(bi[1:], bo[1:]):
        if sorted(a["order"]) != sorted(b["order"]):
            return f"category set of block {a['name']} changed: {a['order'][:8]} -> {b['order'][:8]}", None, len(bi)
        for c in a["order"]:
            if a["cats"][c][0] != b["cats"][c][0]:
                return f"item list of {c} in block {a['name']} changed", None, len(bi)
            if len(a["cats"][c][1]) != len(b["cats"][c][1]):
                return f"row count of {c} in block {a['name']} changed", None, len(bi)
            for k, (ra, rb) in enumerate(zip(a["cats"][c][1], b["cats"][c][1])):
                for j, (va, vb) in enumerate(zip(ra, rb)):
                    if va != vb:
                        diffs.append((a["name"], c, k, a["cats"][c][0][j], va, vb))
    if not diffs:
        return None, None, len(bi)
    d = diffs[0]
    msg = f"block {d[0]} row {d[2]} of {d[1]}: item {d[3]} changed {d[4]!r} -> {d[5]!r} ({len(diffs)} cell(s) differ)"
    if all(x[4] == "" and x[5] == "." for x in diffs):
        return msg, "empty-string-value-rewritten-as-dot", len(bi)
    return msg, None, len(bi)


def _post_copy(snap, result, exc, args, kwargs):
    rec = _cur["rec"]
    if snap is None:
        return
    text, cat, src, dst = snap
    det = lambda extra=None: {"op": "copy", "category": cat, "from": src, "to": dst, "info": extra, "input": text[:700]}
    if exc is not None:
        rec.violation("copy.no-exception", det(repr(exc)), mechanism=f"crash:{type(exc).__name__}")
        return
    try:
        fi = ciftok.frame(text)
    except ciftok.CifError as e:
        rec.undecided("copy.frame-preserved", "tokenizer-rejects-input")
        return
    if cat not in fi["cats"] or src not in fi["cats"][cat][0]:
        rec.check("absent.untouched", result == text, lambda: det("text changed although category/source item is absent"))
        return
    try:
        fo = ciftok.frame(result)
    except ciftok.CifError as e:
        rec.violation("copy.output-parses", det(str(e)), mechanism=None)
        return
    new_item = dst not in fi["cats"][cat][0]
    prob, mech = _others_equal(fi, fo, cat, dst, new_item)
    rec.check("copy.frame-preserved", prob is None, lambda: det(prob), mechanism=mech)
    pb, mb, nb = _other_blocks(text, result)
    if nb > 1:
        rec.check("copy.other-blocks-preserved", pb is None, lambda: det(pb), mechanism=mb)
    if mech:
        prob = None
    if prob is None:
        items, rows = fo["cats"][cat]
        s, t = items.index(src), items.index(dst)
        src_in = [r[fi["cats"][cat][0].index(src)] for r in fi["cats"][cat][1]]
        tgt, srco = [r[t] for r in rows], [r[s] for r in rows]
        okc = tgt == src_in and srco == src_in
        mech2 = None
        if not okc:
            norm = ["." if v == "" else v for v in src_in]
            if tgt == norm and srco == norm:
                mech2 = "empty-string-value-rewritten-as-dot"
        rec.check("copy.target-equals-source", okc, lambda: det({"target": tgt[:10], "source": src_in[:10]}), mechanism=mech2)


def _post_replace(snap, result, exc, args, kwargs):
    rec = _cur["rec"]
    if snap is None:
        return
    text, cat, col, values = snap
    det = lambda extra=None: {"op": "replace", "category": cat, "item": col, "values": values, "info": extra, "input": text[:700]}
    try:
        fi = ciftok.frame(text)
    except ciftok.CifError:
        rec.undecided("replace.frame-preserved", "tokenizer-rejects-input")
        return
    present = cat in fi["cats"] and col in fi["cats"][cat][0]
    if present:
        src = [r[fi["cats"][cat][0].index(col)] for r in fi["cats"][cat][1]]
        distinct = list(dict.fromkeys(src))
        if len(distinct) > len(values):
            # fewer symbols than distinct values: no injective mapping exists, so refusing (raising) is fine and is
            # not judged - but WHATEVER is returned must still be an injective mapping with the column as its image
            if exc is not None or not (isinstance(result, tuple) and len(result) == 2 and isinstance(result[1], dict)):
                rec.skip("replace.frame-preserved", "alphabet-overflow: refused")
                return
            out_, mp = result
            inj = len(set(mp.values())) == len(mp)
            rec.check("replace.overflow-result-still-injective", inj and len(mp) == len(distinct), lambda: det({"mapping": mp, "distinct-values": distinct[:10]}))
            return
    if exc is not None:
        rec.violation("replace.no-exception", det(repr(exc)), mechanism=f"crash:{type(exc).__name__}")
        return
    ok_shape = isinstance(result, tuple) and len(result) == 2 and isinstance(result[0], str) and isinstance(result[1], dict)
    if not rec.check("replace.returns-text-and-mapping", ok_shape, lambda: det(repr(result)[:200])):
        return
    out, mapping = result
    if not present:
        rec.check("absent.untouched", out == text and mapping == {}, lambda: det("text/mapping changed although category/item is absent"))
        return
    try:
        fo = ciftok.frame(out)
    except ciftok.CifError as e:
        rec.violation("replace.output-parses", det(str(e)), mechanism=None)
        return
    prob, mech = _others_equal(fi, fo, cat, col, False)
    rec.check("replace.frame-preserved", prob is None, lambda: det(prob), mechanism=mech)
    pb, mb, nb = _other_blocks(text, out)
    if nb > 1:
        rec.check("replace.other-blocks-preserved", pb is None, lambda: det(pb), mechanism=mb)
    if mech:
        prob = None
    if prob is None:
        want_map = {v: values[k] for k, v in enumerate(distinct)}
        got = [r[fo["cats"][cat][0].index(col)] for r in fo["cats"][cat][1]]
        inj = len(set(mapping.values())) == len(mapping)
        rec.check("replace.mapping-injective-first-seen", mapping == want_map and inj, lambda: det({"mapping": mapping, "want": want_map}))
        rec.check("replace.target-is-image", got == [want_map[v] for v in src], lambda: det({"got": got[:10], "want": [want_map[v] for v in src][:10]}))


def _pre_copy(args, kwargs):
    names = ["file_content", "category", "copy_from", "copy_to"]
    defaults = [None, "atom_site", "label_asym_id", "auth_asym_id"]
    vals = list(args) + defaults[len(args):]
    for i, n in enumerate(names):
        if n in kwargs:
            vals[i] = kwargs[n]
    return tuple(vals) if isinstance(vals[0], str) else None


def _pre_replace(args, kwargs):
    import string

    names = ["file_content", "category", "column", "values"]
    defaults = [None, "atom_site", "auth_asym_id", "".join(c for c in string.printable if c not in string.whitespace)]
    vals = list(args) + defaults[len(args):]
    for i, n in enumerate(names):
        if n in kwargs:
            vals[i] = kwargs[n]
    return tuple(vals) if isinstance(vals[0], str) else None


def setup(rec, reach):
    from rnapolis import transformer

    _cur["rec"] = rec
    core.wrap(transformer, "copy_from_to", rec, post=_post_copy, pre=_pre_copy, label="transformer.copy_from_to")
    core.wrap(transformer, "replace_value", rec, post=_post_replace, pre=_pre_replace, label="transformer.replace_value")
    core.wrap(transformer, "main", rec, label="transformer.main")
    for n in ("copy_from_to", "replace_value", "main"):
        reach.add(getattr(transformer, n), n)


WORDS = ["A", "B", "AA", "x1", "1", "22", "-3.5", "HOH", "N1", "C1'", "O5'", "?", ".", "two words", "it's", 'say "hi"', "a b c", "#hash", "_under", "data_x", "loop_", ";semi", "'q", "1_555", "", "A-2"]


def make_doc(rng):
    cats = []
    ncat = rng.randint(1, 5)
    names = rng.sample(["atom_site", "entity", "struct_asym", "cell", "pdbx_poly_seq_scheme", "exptl", "chem_comp", "my_cat"], ncat)
    for cn in names:
        nitems = rng.randint(1, 6)
        pool = ["id", "label_asym_id", "auth_asym_id", "label_seq_id", "auth_seq_id", "type", "details", "value", "label_atom_id", "Cartn_x"]
        items = rng.sample(pool, nitems)
        kind = "kv" if rng.random() < 0.3 else "loop"
        nrows = 1 if kind == "kv" else rng.randint(1, 12)
        words = WORDS if rng.random() < 0.15 else [w for w in WORDS if w != ""]
        few = rng.sample(words, rng.randint(1, 5))
        rows = []
        for _ in range(nrows):
            row = []
            for it in items:
                r = rng.random()
                if r < 0.6:
                    row.append(rng.choice(few))
                elif r < 0.97:
                    row.append(rng.choice(words))
                else:
                    row.append("line one\nline two")
            rows.append(row)
        cats.append((cn, items, rows, kind))
    return cats


def cases(shard, nshards, seed, tier):
    k = 0

    def mine():
        nonlocal k
        k += 1
        return (k - 1) % nshards == shard

    n = 300 if tier == "quick" else 6000
    for i in range(n):
        if mine():
            yield {"family": "generated", "i": i}
    for argv in ([], ["--category", "atom_site"], ["--copy-from", "label_asym_id"], ["--replace", "auth_asym_id"], ["--values", "ABC", "--copy-to", "x"]):
        if mine():
            yield {"family": "cli-incomplete-mode", "argv": argv}
    # the substitution alphabet left to its default (every printable non-blank character, 94 symbols): items with 30,
    # 53, 60 and exactly 94 distinct values (large assemblies have that many chains)
    for nd in (30, 53, 60, 94):
        for how in ("default-category-and-item", "named-category-and-item"):
            if mine():
                yield {"family": "default-alphabet", "distinct": nd, "how": how}
    d = os.path.join(core.REPO, "tests")
    files = sorted(fn for fn in os.listdir(d) if fn.endswith(".cif") and os.path.getsize(os.path.join(d, fn)) > 0)
    if tier == "quick":
        files = [f for f in files if os.path.getsize(os.path.join(d, f)) < 400_000]
    for fn in files:
        for op in ("copy", "copy-new", "replace", "absent-cat", "absent-item", "copy-other-cat"):
            if mine():
                yield {"family": "corpus", "file": "tests/" + fn, "op": op}


def _run_main(argv):
    from rnapolis import transformer

    old = sys.argv
    sys.argv = ["transformer"] + argv
    buf = io.StringIO()
    try:
        with contextlib.redirect_stdout(buf), contextlib.redirect_stderr(buf):
            transformer.main()
        return None
    except SystemExit as e:
        return f"SystemExit({e.code})"
    except Exception as e:
        return repr(e)
    finally:
        sys.argv = old


def _drive(rec, text, cat, op_kind, a, b, abstract=None):
    """op_kind copy: a=from b=to ; replace: a=column b=values"""
    from rnapolis import transformer

    lib_out = None
    try:
        if op_kind == "copy":
            lib_out = transformer.copy_from_to(text, cat, a, b)
        else:
            lib_out = transformer.replace_value(text, cat, a, b)
    except Exception:
        lib_out = None
    if lib_out is None:
        return
    want = lib_out if op_kind == "copy" else lib_out[0]
    # CLI twin on the same content
    d = tempfile.mkdtemp(prefix="vmon-c20-")
    try:
        pin, pout = os.path.join(d, "in.cif"), os.path.join(d, "out.cif")
        open(pin, "w").write(text)
        argv = [pin, pout, "--category", cat] + (["--copy-from", a, "--copy-to", b] if op_kind == "copy" else ["--replace", a, "--values", b])
        err = _run_main(argv)
        got = open(pout).read() if os.path.exists(pout) else None
        mech = None
        if got != want:
            if got == pin or (err and "TypeError" in err and "tuple" in err):
                mech = "cli-passes-path-as-content"
        rec.check("cli.equals-library", err is None and got == want,
                  lambda: {"op": op_kind, "category": cat, "a": a, "b": b, "error": err, "cli-output": (got or "")[:200], "library-output": want[:200]}, mechanism=mech)
        # editing in place: the output path is the input path
        if int(core.chash([text[:200], cat, a, b])[:2], 16) % 3 == 0:
            pin2 = os.path.join(d, "inplace.cif")
            open(pin2, "w").write(text)
            argv2 = [pin2, pin2] + argv[2:]
            err2 = _run_main(argv2)
            got2 = open(pin2).read()
            rec.check("cli.in-place-equals-library", err2 is None and got2 == want,
                      lambda: {"op": op_kind, "category": cat, "a": a, "b": b, "error": err2, "file-after": got2[:200], "library-output": want[:200]})
    finally:
        import shutil

        shutil.rmtree(d, ignore_errors=True)


def run_case(case, rec):
    seed = os.environ.get("VERIF_SEED", "0")
    if case["family"] == "default-alphabet":
        from rnapolis import transformer

        nd = case["distinct"]
        chains = [f"C{i}" for i in range(nd)]
        rows = []
        for i, ch in enumerate(chains):
            for a in ("P", "C1'"):
                rows.append(["ATOM", str(len(rows) + 1), a, ch, chr(65 + i % 26), str(i + 1)])
        # first appearance is not alphabetical: the second half of the chains comes first
        rows = rows[nd:] + rows[:nd]
        cats = [("entity", ["id", "type"], [["1", "polymer"]], "kv"), ("atom_site", ["group_PDB", "id", "label_atom_id", "auth_asym_id", "label_asym_id", "auth_seq_id"], rows, "loop")]
        text = ciftok.emit("many", cats)
        rec.mark_nontrivial(True)
        try:
            if case["how"] == "default-category-and-item":
                transformer.replace_value(text)
            else:
                transformer.replace_value(text, "atom_site", "auth_asym_id")
        except Exception:
            pass  # judged by the monitor
        return
    if case["family"] == "generated":
        rng = random.Random(f"{seed}:C20:g:{case['i']}")
        cats = make_doc(rng)
        blocks = [("gen", cats)]
        if case["i"] % 4 == 3:
            # multi-block documents: the library edits the first block; later
            # blocks (which may repeat its category names) must survive
            for b in range(rng.randint(1, 2)):
                blocks.append((rng.choice(["restraints", "model2", "B", "gen_b"]) + str(b), make_doc(rng)))
        # data names in column 1, indented by blanks / a tab, or on the loop_ line (CIF is free-format)
        layout = [0, 0, 1, 2, 3][(case["i"] // 2) % 5]
        rec.count(f"note:layout-{layout}")
        text = ciftok.emit_blocks(blocks, layout)
        # emitter/tokenizer self check against the known abstract content
        try:
            frs = ciftok.frames(text)
            same = len(frs) == len(blocks) and all(
                fr["name"] == nm and fr["order"] == [c[0] for c in cs] and all(fr["cats"][c[0]] == (c[1], c[2]) for c in cs)
                for fr, (nm, cs) in zip(frs, blocks))
        except ciftok.CifError:
            same = False
        if not same:
            rec.undecided("copy.frame-preserved", "emitter/tokenizer self-check failed")
            return
        cn, items, rows, kind = rng.choice(cats)
        op = rng.choice(["copy", "copy-new", "replace", "replace-short", "replace-short-own", "replace-own", "absent-cat", "absent-item"])
        rec.mark_nontrivial(op not in ("absent-cat", "absent-item"))
        if op == "copy" and len(items) >= 2:
            a, b = rng.sample(items, 2)
            _drive(rec, text, cn, "copy", a, b)
        elif op in ("copy", "copy-new"):
            _drive(rec, text, cn, "copy", rng.choice(items), "brand_new_item")
        elif op == "replace":
            _drive(rec, text, cn, "replace", rng.choice(items), "ABCDEFGHIJKLMNOPQRSTUVWXYZ0123456789")
        elif op == "replace-short":
            _drive(rec, text, cn, "replace", rng.choice(items), "XY")
        elif op in ("replace-short-own", "replace-own"):
            # the alphabet is made of the column's OWN one-character values (renames chain B->A, A->B ...), possibly
            # fewer symbols than distinct values
            it = rng.choice(items)
            col = [r[items.index(it)] for r in rows]
            own = [v for v in dict.fromkeys(col) if len(v) == 1 and v.isalnum()]
            alpha = "".join(reversed(own)) or "BA"
            if op == "replace-short-own":
                alpha = alpha[: max(1, len(set(col)) - 1)]
            else:
                alpha = alpha + "ZYXWVUTSRQPONMLKJIHGFEDC0123456789"
            _drive(rec, text, cn, "replace", it, alpha)
        elif op == "absent-cat":
            if rng.random() < 0.5:
                _drive(rec, text, "no_such_category", "copy", items[0], "zz")
            else:
                _drive(rec, text, "no_such_category", "replace", items[0], "ABC")
        else:
            if rng.random() < 0.5:
                _drive(rec, text, cn, "copy", "no_such_item", items[0])
            else:
                _drive(rec, text, cn, "replace", "no_such_item", "ABC")
        # the SAME text edited once more in this process, another way (a copy onto a new item, then a replacement of an
        # existing item, then a copy between existing items): each call is judged against the text it was given
        if case["i"] % 3 == 0:
            from rnapolis import transformer

            rec.count("note:same-text-edited-again")
            for fn_, a_ in ((transformer.copy_from_to, (text, cn, items[0], "vmon_second_edit")), (transformer.replace_value, (text, cn, items[-1], "KLMNOPQRSTUVWXYZ0123456789abcdefghij")),
                            (transformer.copy_from_to, (text, cn, items[-1], items[0]))):
                try:
                    fn_(*a_)
                except Exception:
                    pass  # judged by the monitors
        return
    if case["family"] == "cli-incomplete-mode":
        # neither a complete copy mode nor a complete replace mode: nothing may be written
        d = tempfile.mkdtemp(prefix="vmon-c20-")
        try:
            pin, pout = os.path.join(d, "in.cif"), os.path.join(d, "out.cif")
            text = ciftok.emit("gen", make_doc(random.Random("incomplete")))
            open(pin, "w").write(text)
            err = _run_main([pin, pout] + case["argv"])
            rec.check("cli.incomplete-mode-writes-nothing", err is None and not os.path.exists(pout) and open(pin).read() == text,
                      lambda: {"argv": case["argv"], "error": err, "output-exists": os.path.exists(pout)})
        finally:
            import shutil

            shutil.rmtree(d, ignore_errors=True)
        return
    text = open(os.path.join(core.REPO, case["file"])).read()
    op = case["op"]
    rec.mark_nontrivial(op not in ("absent-cat", "absent-item"))
    if op == "copy":
        _drive(rec, text, "atom_site", "copy", "label_asym_id", "auth_asym_id")
    elif op == "copy-new":
        _drive(rec, text, "atom_site", "copy", "auth_seq_id", "vmon_new_item")
    elif op == "replace":
        import string

        _drive(rec, text, "atom_site", "replace", "auth_asym_id", "".join(c for c in string.printable if c not in string.whitespace))
    elif op == "absent-cat":
        _drive(rec, text, "no_such_category", "copy", "a", "b")
    elif op == "absent-item":
        _drive(rec, text, "atom_site", "replace", "no_such_item", "ABC")
    elif op == "copy-other-cat":
        fr = ciftok.frame(text)
        others = [c for c in fr["order"] if c != "atom_site" and len(fr["cats"][c][0]) >= 2]
        if others:
            c = others[len(others) // 2]
            its = fr["cats"][c][0]
            _drive(rec, text, c, "copy", its[0], its[1])


def classify(v):
    return v.get("mechanism")
