"""C15 - both reader generations and both file formats agree on structure content."""
import collections
import math
import os
import random

import numpy as np

from vmon import core, emit, gen3d, gentab
from vmon.oracles import geom

ID = "C15"
LEVEL = "exploration"
RULE = (
    "cases: abstract single-conformer atom tables (windows of real nucleotide residues lifted from corpus structures so that chi "
    "and O3'-P geometry exist, mixed with generated residues: insertion codes, negative numbers, HETATM, several chains, gaps made "
    "by deleting residues or moving a phosphate across the 2.4 A limit) serialised to PDB and to mmCIF by the independent emitter; "
    "each text is read by parser.read_3d_structure and by parser_v2.parse_*_atoms + tertiary_v2.Structure. The four readings are "
    "compared with the abstract table and with each other as maps keyed by residue identity: residue set, names, atom sets, "
    "coordinates, pairwise connectivity and connected segments, |chi|. Non-trivial = table has >=2 residues with a chi torsion; "
    "distinct = canonical JSON hash of the case descriptor."
)
ASSUMPTIONS = ["single-conformer is decided on the abstract table (no alt-loc, no repeated name, no atoms closer than 0.5 A)", "O3'-P distances within 1e-6 of 2.4 A are undecided",
               "only |chi| is compared (the sign of the table-level implementation is C18's known finding)"]
REQUIRED_MONITORS = ["parser.read_3d_structure", "parser_v2.parse_pdb_atoms", "parser_v2.parse_cif_atoms", "Structure.residues", "Structure.connected_residues"]
REQUIRED_CLAUSES = ["residues.same-set", "residues.same-atoms-and-coordinates", "connectivity.pairwise-agree", "connectivity.segments", "chi.magnitudes-agree"]
LANDMARKS = {
    "v2-pdb-groupby": ("Structure.residues", 'groupby_cols = ["chainID", "resSeq", "iCode"]'),
    "v2-cif-groupby": ("Structure.residues", 'groupby_cols = ["auth_asym_id", "auth_seq_id"]'),
    "v2-segment-break": ("Structure.connected_residues", "current_segment = [residue]"),
}
_cur = {}


def setup(rec, reach):
    from rnapolis import parser, parser_v2, tertiary_v2

    _cur["rec"] = rec
    core.wrap(parser, "read_3d_structure", rec, label="parser.read_3d_structure")
    core.wrap(parser_v2, "parse_pdb_atoms", rec, label="parser_v2.parse_pdb_atoms")
    core.wrap(parser_v2, "parse_cif_atoms", rec, label="parser_v2.parse_cif_atoms")
    core.wrap(tertiary_v2.Structure, "residues", rec, label="Structure.residues")
    core.wrap(tertiary_v2.Structure, "connected_residues", rec, label="Structure.connected_residues")
    reach.add(tertiary_v2.Structure.__dict__["residues"], "Structure.residues")
    reach.add(tertiary_v2.Structure.__dict__["connected_residues"], "Structure.connected_residues")
    reach.add(tertiary_v2.Residue.is_connected, "v2.Residue.is_connected")


def cases(shard, nshards, seed, tier):
    k = 0

    def mine():
        nonlocal k
        k += 1
        return (k - 1) % nshards == shard

    n = 300 if tier == "quick" else 6000
    for i in range(n):
        if mine():
            yield {"family": "generated", "i": i}
    # deposited mmCIF files as they are, and without the canonical one-letter sequence item (refinement programs write
    # only the plain code, in which modified residues are spelled (PSU)): the two readers on the same text
    for fn in ("tests/1ehz-assembly-1.cif", "tests/1a9n.cif"):  # (files without alternate locations)
        for variant in ("as-deposited", "without-canonical-sequence"):
            if mine():
                yield {"family": "deposited-file", "file": fn, "variant": variant}
    # ensembles whose models are not numbered 1..N (zero-based, or a selection), through the table-level reader and the
    # PDB writer: a requested model is that model, from every reader
    for numbering in ([0, 1, 2], [2, 5], [1, 2, 3]):
        if mine():
            yield {"family": "models-not-numbered-from-one", "numbering": numbering}
    # more than ten thousand residue numbers in one table (solvent of a large entry) next to two short RNA chains
    if mine():
        yield {"family": "ten-thousand-residues"}
    for fn in gen3d.corpus_files():
        if fn.endswith(".gz") or (tier == "quick" and os.path.getsize(os.path.join(core.REPO, fn)) > 300_000):
            continue
        if mine():
            yield {"family": "corpus", "file": fn}


SOURCES = ["tests/1A1T_1_B.cif", "tests/1E7K_1_C.cif", "tests/184D.cif", "tests/4WTI_1_T-P.cif", "tests/1DFU_1_M-N.cif", "tests/1HMH_1_E.cif", "tests/6INQ.cif"]


STANDARD = ("A", "C", "G", "U", "DA", "DC", "DG", "DT")


def make_table(rng):
    fn = rng.choice(SOURCES)
    s = gen3d.load(fn, 1)
    nres = len(s.residues)
    start = rng.randrange(max(1, nres - 4))
    rows = gentab.template_rows(s, max_res=rng.randint(3, 10), start=start)
    # residue keys in order
    keys = []
    for r in rows:
        k = (r["chain"], r["resseq"], r["icode"])
        if k not in keys:
            keys.append(k)
    # gaps: delete a residue
    if len(keys) > 3 and rng.random() < 0.4:
        dead = keys[rng.randrange(1, len(keys) - 1)]
        rows = [r for r in rows if (r["chain"], r["resseq"], r["icode"]) != dead]
    # move one phosphate so that O3'-P crosses the limit
    if rng.random() < 0.4:
        ps = [r for r in rows if r["name"] == "P"]
        if ps:
            p = rng.choice(ps)
            p["x"] = round(p["x"] + rng.choice([0.5, 0.9, 1.5, -0.7]), 3)
    # ... or so that it sits EXACTLY on the limit: the phosphorus goes to O3' + (2.4, 0, 0) with O3' on
    # coordinates whose sum with 2.4 is exact in binary (x.0 / x.5): whatever the readers decide there, they
    # must decide the same
    elif rng.random() < 0.35:
        ks = []
        for r in rows:
            k = (r["chain"], r["resseq"], r["icode"])
            if k not in ks:
                ks.append(k)
        if len(ks) >= 2:
            i = rng.randrange(len(ks) - 1)
            o3 = next((r for r in rows if (r["chain"], r["resseq"], r["icode"]) == ks[i] and r["name"] == "O3'"), None)
            p = next((r for r in rows if (r["chain"], r["resseq"], r["icode"]) == ks[i + 1] and r["name"] == "P"), None)
            if o3 is not None and p is not None:
                for c in "xyz":
                    o3[c] = float(round(o3[c] * 2) / 2)
                p["x"], p["y"], p["z"] = o3["x"] + 2.4, o3["y"], o3["z"]
                p["x"] = round(p["x"], 3)
    # renumber with hostile numbers / insertion codes
    mode = rng.random()
    if mode < 0.3:
        off = rng.choice([-40, -7, 900])
        for r in rows:
            r["resseq"] += off
    elif mode < 0.5:
        # give two consecutive residues the same number with insertion codes
        ks = []
        for r in rows:
            k = (r["chain"], r["resseq"], r["icode"])
            if k not in ks:
                ks.append(k)
        if len(ks) >= 2:
            a, b = ks[0], ks[1]
            if a[0] == b[0]:
                for r in rows:
                    if (r["chain"], r["resseq"], r["icode"]) == b:
                        r["resseq"], r["icode"] = a[1], "A"
    # add generated non-nucleotide residues on another chain
    if rng.random() < 0.5:
        extra = gentab.random_table(rng, nmodels=1, altlocs=False, close_pairs=False, dup_names=False, nchains=1, wide=False, charges=False)
        used = {r["chain"] for r in rows}
        ch = next(c for c in "WXYZwxyz" if c not in used)
        for r in extra:
            r["chain"] = ch
            r["occ"], r["b"], r["model"] = 1.0, 0.0, 1
        if rng.random() < 0.5 and len(keys) >= 4:
            # the other chain's records sit in the middle of this chain's records (legitimate,
            # e.g. hetero groups or a second strand written between two segments)
            # keys were recorded before renumbering: cut at a residue boundary found positionally
            bounds = [i for i in range(1, len(rows)) if (rows[i]["chain"], rows[i]["resseq"], rows[i]["icode"]) != (rows[i - 1]["chain"], rows[i - 1]["resseq"], rows[i - 1]["icode"])]
            if bounds:
                cut = bounds[len(bounds) // 2]
                rows = rows[:cut] + extra + rows[cut:]
            else:
                rows += extra
        else:
            rows += extra
    # modified nucleotides are HETATM records in deposited files
    for r in rows:
        if r["rec"] == "ATOM" and r["resname"] not in ("A", "C", "G", "U", "DA", "DC", "DG", "DT"):
            r["rec"] = "HETATM"
    # the molecule far from the origin: coordinates that fill the PDB fields completely (z <= -100, x >= 1000)
    if rng.random() < 0.25:
        dx, dy, dz = rng.choice([(1200.0, -350.0, -400.0), (0.0, 0.0, -160.0), (-300.0, 2000.0, -120.0)])
        for r in rows:
            r["x"], r["y"], r["z"] = round(r["x"] + dx, 3), round(r["y"] + dy, 3), round(r["z"] + dz, 3)
    # serial numbers as deep inside a large entry (HETATM records whose five-digit serial touches the record name)
    off = rng.choice([0, 0, 9990, 99000, 99999 - len(rows)])
    for i, r in enumerate(rows, 1):
        r["serial"] = i + off
        r["alt"] = None
    # an incompletely built base or sugar: one atom of a glycosidic-torsion definition is absent from one residue, so that
    # residue has no chi (in particular a purine without N9 or C4 has none, whatever other atoms it has)
    if rng.random() < 0.25:
        ks = sorted({(r["chain"], r["resseq"], r["icode"]) for r in rows if r["resname"] in STANDARD}, key=str)
        if ks:
            k = rng.choice(ks)
            dead = rng.choice(["N9", "C4", "N9", "C4", "N1", "C2", "O4'", "C1'"])
            rows = [r for r in rows if not ((r["chain"], r["resseq"], r["icode"]) == k and r["name"] == dead)]
            for i, r in enumerate(rows, 1):
                r["serial"] = i + off
    # a nucleotide named as one of the less common components: inosine (I / DI: a purine without N2), deoxyuridine (DU)
    if rng.random() < 0.2:
        ks = sorted({(r["chain"], r["resseq"], r["icode"]): r["resname"] for r in rows if r["resname"] in ("G", "DG", "U", "DT", "A")}.items(), key=str)
        if ks:
            k, old_name = rng.choice(ks)
            new_name = {"G": "I", "DG": "DI", "U": "DU", "DT": "DU", "A": "I"}[old_name]
            drop = {"G": {"N2", "H21", "H22"}, "DG": {"N2", "H21", "H22"}, "DT": {"C7", "C5M", "H71", "H72", "H73"}, "A": {"N6", "H61", "H62"}}.get(old_name, set())
            rows = [dict(r, resname=new_name) if (r["chain"], r["resseq"], r["icode"]) == k else r for r in rows if not ((r["chain"], r["resseq"], r["icode"]) == k and r["name"] in drop)]
            for i, r in enumerate(rows, 1):
                r["serial"] = i + off
    # a mid-chain residue modelled without its phosphate group (P, OP1, OP2 absent, O5' present): no O3'-P link to it
    if rng.random() < 0.15:
        ks = []
        for r in rows:
            k = (r["chain"], r["resseq"], r["icode"])
            if k not in ks:
                ks.append(k)
        if len(ks) >= 3:
            k = ks[rng.randrange(1, len(ks))]
            rows = [r for r in rows if not ((r["chain"], r["resseq"], r["icode"]) == k and r["name"] in ("P", "OP1", "OP2", "OP3", "O1P", "O2P", "P*"))]
            for i, r in enumerate(rows, 1):
                r["serial"] = i + off
    # atom names in the spelling used before the 2007 remediation (and by several modelling tools to this day): the
    # prime written as an asterisk.  Names are data: every reader reports them as written, from both formats
    if rng.random() < 0.1:
        for r in rows:
            r["name"] = r["name"].replace("'", "*")
    # zero occupancy is an ordinary occupancy (atoms modelled without density): some, never all, atoms carry it
    if rng.random() < 0.3:
        for r in rng.sample(rows, max(1, len(rows) // 12)):
            r["occ"] = 0.0
    return rows, {"source": fn, "start": start}


def single_conformer(rows):
    seen = set()
    for r in rows:
        k = (r["model"], r["chain"], r["resseq"], r["icode"], r["name"])
        if k in seen or r["alt"]:
            return False
        seen.add(k)
    X = np.array([[r["x"], r["y"], r["z"]] for r in rows])
    if len(X) > 1 and len(X) < 4000:
        D = np.sqrt(((X[:, None, :] - X[None, :, :]) ** 2).sum(-1))
        np.fill_diagonal(D, 9.0)
        if D.min() < 0.5:
            return False
    return True


def abstract_map(rows):
    out = {}
    order = []
    for r in rows:
        k = (r["chain"], r["resseq"], r["icode"])
        if k not in out:
            out[k] = {"name": r["resname"], "atoms": {}}
            order.append(k)
        out[k]["atoms"][r["name"]] = (r["x"], r["y"], r["z"])
    return out, order


ResidueAuthLike = collections.namedtuple("ResidueAuthLike", "chain number icode name")


def v1_map(structure):
    out = {}
    objs = {}
    for r in structure.residues:
        a = r.auth
        if a is None:
            # label identifiers only
            a = ResidueAuthLike(r.label.chain, r.label.number, None, r.label.name)
        k = (a.chain, a.number, a.icode)
        out[k] = {"name": a.name, "atoms": {x.name: (x.x, x.y, x.z) for x in r.atoms}}
        objs[k] = r
    return out, objs


def v2_map(st):
    out = {}
    objs = {}
    for r in st.residues:
        k = (str(r.chain_id), int(r.residue_number), r.insertion_code)
        out[k] = {"name": str(r.residue_name), "atoms": {str(a.name): tuple(float(v) for v in a.coordinates) for a in r.atoms_list}}
        objs[k] = r
    return out, objs


def diff_maps(a, b):
    if set(a) != set(b):
        return {"only-first": sorted(map(str, set(a) - set(b)))[:5], "only-second": sorted(map(str, set(b) - set(a)))[:5]}
    for k in a:
        if a[k]["name"] != b[k]["name"]:
            return {"residue": k, "names": (a[k]["name"], b[k]["name"])}
        if set(a[k]["atoms"]) != set(b[k]["atoms"]):
            return {"residue": k, "atom-sets-differ": sorted(set(a[k]["atoms"]) ^ set(b[k]["atoms"]))[:6]}
        for n, xyz in a[k]["atoms"].items():
            if any(abs(p - q) > 1e-9 for p, q in zip(xyz, b[k]["atoms"][n])):
                return {"residue": k, "atom": n, "xyz": (xyz, b[k]["atoms"][n])}
    return None


def _deposited(case, rec):
    from rnapolis import parser_v2, tertiary_v2
    from vmon.props import c18

    path = os.path.join(core.REPO, case["file"])
    text = open(path).read()
    if case["variant"] == "without-canonical-sequence":
        text = c18._without_canonical_sequence(path)
        if text is None:
            rec.skip("chi.magnitudes-agree", "no one-line canonical sequence item in this file")
            return
    det = lambda extra=None: {"case": {"file": case["file"], "variant": case["variant"]}, "info": extra}
    try:
        s1 = emit.read_text(text, ".cif", 1)
        m1, o1 = v1_map(s1)
        st2 = tertiary_v2.Structure(parser_v2.parse_cif_atoms(text))
        tab = st2.torsion_angles
    except Exception as e:
        rec.violation("readers.no-crash", det(repr(e)[:300]), mechanism=f"crash:{type(e).__name__}")
        return
    rec.mark_nontrivial(True)
    bad = None
    n = 0
    for _, row in tab.iterrows():
        c = row.get("chi")
        if c is None or (isinstance(c, float) and math.isnan(c)):
            continue
        k = (str(row["chain_id"]), int(row["residue_number"]), row["insertion_code"] if isinstance(row["insertion_code"], str) else None)
        r = o1.get(k)
        if r is None or str(row["residue_name"]) not in STANDARD:
            continue
        try:
            c1 = r.chi
        except Exception:
            c1 = None
        n += 1
        if c1 is None or math.isnan(c1) or abs(abs(c1) - abs(float(c))) > 1e-6:
            bad = {"residue": k, "name": str(row["residue_name"]), "residue-level chi": c1, "table-level chi": float(c), "one-letter": r.one_letter_name}
    rec.check("chi.magnitudes-agree", bad is None, lambda: det(bad))
    rec.count("note:deposited-chi-compared", n)


def _model_numbers(case, rec):
    from rnapolis import parser_v2, tertiary_v2

    s = gen3d.load("tests/1E7K_1_C.cif", 1)
    tmpl = gentab.template_rows(s, max_res=5, start=2)
    rows = []
    for idx, m in enumerate(case["numbering"]):
        for r in tmpl:
            rows.append(dict(r, model=m, alt=None, occ=1.0, b=0.0, x=round(r["x"] + 5.0 * idx, 3)))
    for i, r in enumerate(rows, 1):
        r["serial"] = i
    if any(len(r["chain"] or "") != 1 for r in rows):
        return
    det = lambda extra=None: {"case": {"family": "models-not-numbered-from-one", "numbering": case["numbering"]}, "info": extra}
    rec.mark_nontrivial(True)
    try:
        df = parser_v2.parse_cif_atoms(emit.emit_cif(rows))
        pdb_text = parser_v2.write_pdb(parser_v2.fit_to_pdb(df))
        cif_text = parser_v2.write_cif(df)
    except Exception as e:
        rec.violation("readers.no-crash", det(repr(e)[:300]), mechanism=f"crash:{type(e).__name__}")
        return
    for m in case["numbering"]:
        amap, _ = abstract_map([r for r in rows if r["model"] == m])
        readings = {}
        try:
            readings["v1-pdb-written-by-the-library"] = v1_map(emit.read_text(pdb_text, ".pdb", m))[0]
            readings["v1-cif-written-by-the-library"] = v1_map(emit.read_text(cif_text, ".cif", m))[0]
            d2 = parser_v2.parse_pdb_atoms(pdb_text)
            readings["v2-pdb-written-by-the-library"] = v2_map(tertiary_v2.Structure(d2[d2["model"] == m]))[0]
        except Exception as e:
            rec.violation("readers.no-crash", det({"model": m, "exception": repr(e)[:300]}), mechanism=f"crash:{type(e).__name__}")
            continue
        for name, mp in readings.items():
            d = diff_maps(amap, mp)
            rec.check("models.requested-model-from-every-reader", d is None, lambda: det({"model": m, "reader": name, "vs-table": d}))


def _ten_thousand(case, rec):
    from rnapolis import parser_v2, tertiary_v2

    s = gen3d.load("tests/1A1T_1_B.cif", 1)
    tmpl = gentab.template_rows(s, max_res=4, start=0)
    rows = []
    nums = {}
    for r in tmpl:
        nums.setdefault((r["resseq"], r["icode"]), len(nums) + 1)
    for ch in ("A", "B"):
        for r in tmpl:
            rows.append(dict(r, chain=ch, resseq=nums[(r["resseq"], r["icode"])], icode=None, model=1, alt=None, occ=1.0, b=0.0, x=round(r["x"] + (40.0 if ch == "B" else 0.0), 3)))
    # waters: 5 120 per chain, numbered upwards from 101 (mmCIF holds numbers beyond 9999)
    for ch in ("A", "B"):
        for i in range(5120):
            rows.append({"rec": "HETATM", "serial": 0, "name": "O", "alt": None, "resname": "HOH", "chain": ch, "resseq": 101 + i + (5120 if ch == "B" else 0), "icode": None,
                         "x": round(100.0 + (i % 40) * 3.1, 3), "y": round((i // 40 % 40) * 3.1, 3), "z": round((i // 1600) * 3.1 + (20.0 if ch == "B" else 0.0), 3),
                         "occ": 1.0, "b": 0.0, "element": "O", "charge": None, "model": 1})
    for i, r in enumerate(rows, 1):
        r["serial"] = i
    amap, order = abstract_map(rows)
    text = emit.emit_cif(rows)
    det = lambda extra=None: {"case": {"family": "ten-thousand-residues", "residues": len(order)}, "info": extra}
    rec.mark_nontrivial(True)
    try:
        m1, _ = v1_map(emit.read_text(text, ".cif"))
        m2, _ = v2_map(tertiary_v2.Structure(parser_v2.parse_cif_atoms(text)))
    except Exception as e:
        rec.violation("readers.no-crash", det(repr(e)[:300]), mechanism=f"crash:{type(e).__name__}")
        return
    for name, m in (("v1-cif", m1), ("v2-cif", m2)):
        d = diff_maps(amap, m)
        rec.check("residues.same-set", d is None or "only-first" not in d, lambda: det({"reader": name, "vs-table": d, "residues-read": len(m)}))
        rec.check("residues.same-atoms-and-coordinates", d is None or "only-first" in d, lambda: det({"reader": name, "vs-table": d}))


def run_case(case, rec):
    from rnapolis import parser, parser_v2, tertiary_v2

    if case["family"] == "ten-thousand-residues":
        return _ten_thousand(case, rec)
    if case["family"] == "deposited-file":
        return _deposited(case, rec)
    if case["family"] == "models-not-numbered-from-one":
        return _model_numbers(case, rec)

    seed = os.environ.get("VERIF_SEED", "0")
    if case["family"] == "generated":
        rng = random.Random(f"{seed}:C15:{case['i']}")
        rows, desc = make_table(rng)
        desc["i"] = case["i"]
    else:
        s = gen3d.load(case["file"])
        rows = emit.rows_from_structure(s)
        desc = {"file": case["file"]}
    if not rows or not emit.fits_pdb(rows) or any(not (r["chain"] or "").strip() for r in rows):
        rec.skip("residues.same-set", "outside PDB limits / blank chain")
        return
    if not single_conformer(rows):
        rec.skip("residues.same-set", "not single-conformer")
        return
    amap, order = abstract_map(rows)
    cif_rows = rows
    if int(core.chash(desc)[6:8], 16) % 4 == 1:
        # mmCIF whose label_comp_id differs from auth_comp_id for a few residues (the author's name is the residue's name
        # in every reading, as it is the only name a PDB file has)
        keys = sorted({(r["chain"], r["resseq"], r["icode"]) for r in rows}, key=str)
        chosen = set(keys[::5][:4])
        swap = {"A": "U", "U": "A", "G": "C", "C": "G", "DA": "DT", "DT": "DA", "DG": "DC", "DC": "DG"}
        cif_rows = [dict(r, label_resname=swap.get(r["resname"], "N")) if (r["chain"], r["resseq"], r["icode"]) in chosen else r for r in rows]
        desc["label-names-differ-for"] = len(chosen)
    pdb_text, cif_text = emit.emit_pdb(rows), emit.emit_cif(cif_rows)
    tv = int(core.chash(desc)[4:6], 16) % 12
    if tv in (1, 2, 3, 4):
        # the same records with Windows line endings / stripped trailing blanks / no final newline / tabs
        pdb_text, cif_text = emit.text_variant(pdb_text, tv, "pdb"), emit.text_variant(cif_text, tv, "cif")
        rec.count("note:text-variant")
    readings = {}
    objs = {}
    det = lambda extra=None: {"case": desc, "info": extra}
    try:
        s1p = emit.read_text(pdb_text, ".pdb")
        s1c = emit.read_text(cif_text, ".cif")
        readings["v1-pdb"], objs["v1-pdb"] = v1_map(s1p)
        readings["v1-cif"], objs["v1-cif"] = v1_map(s1c)
        st2p = tertiary_v2.Structure(parser_v2.parse_pdb_atoms(pdb_text))
        st2c = tertiary_v2.Structure(parser_v2.parse_cif_atoms(cif_text))
        readings["v2-pdb"], objs["v2-pdb"] = v2_map(st2p)
        readings["v2-cif"], objs["v2-cif"] = v2_map(st2c)
        if int(core.chash(desc)[2:4], 16) % 3 == 1:
            # the PDB text converted to mmCIF by the library's own writer (which derives label identifiers from the PDB
            # ones), read by both readers: two more readings
            conv = parser_v2.write_cif(parser_v2.parse_pdb_atoms(pdb_text))
            readings["v1-cif-converted-by-the-library"], objs["v1-cif-converted-by-the-library"] = v1_map(emit.read_text(conv, ".cif"))
            readings["v2-cif-converted-by-the-library"], objs["v2-cif-converted-by-the-library"] = v2_map(tertiary_v2.Structure(parser_v2.parse_cif_atoms(conv)))
            rec.count("note:converted-by-the-library-readings")
        if not any(r["icode"] for r in rows) and int(core.chash(desc)[2:4], 16) % 3 == 0:
            # the same table as an mmCIF file with label identifiers only (the auth_* items are optional): chain =
            # label_asym_id, number = label_seq_id - two more readings, judged like the others
            lab_text = emit.emit_cif(rows, label_seq="auth", drop_cols=("auth_seq_id", "auth_comp_id", "auth_asym_id", "auth_atom_id"))
            readings["v1-cif-label-only"], objs["v1-cif-label-only"] = v1_map(emit.read_text(lab_text, ".cif"))
            readings["v2-cif-label-only"], objs["v2-cif-label-only"] = v2_map(tertiary_v2.Structure(parser_v2.parse_cif_atoms(lab_text)))
            rec.count("note:label-only-readings")
    except Exception as e:
        import traceback

        tb = traceback.extract_tb(e.__traceback__)
        rec.violation("readers.no-crash", det({"exception": repr(e)[:300], "tb": [f"{f.filename.split('/')[-1]}:{f.lineno}:{f.name}" for f in tb[-3:]]}), mechanism=f"crash:{type(e).__name__}")
        return
    bad_set = bad_atoms = None
    for name, m in readings.items():
        d = diff_maps(amap, m)
        if d is not None:
            if "only-first" in d:
                bad_set = (name, d)
            else:
                bad_atoms = (name, d)
    rec.check("residues.same-set", bad_set is None, lambda: det({"reader": bad_set[0], "vs-table": bad_set[1]}))
    rec.check("residues.same-atoms-and-coordinates", bad_atoms is None, lambda: det({"reader": bad_atoms[0], "vs-table": bad_atoms[1]}))
    if bad_set or bad_atoms:
        return
    # ---- nucleic-acid-only reading of the residue-level reader: the same residues from both formats, namely the
    # nucleotides of the default reading (no entity tables in these files: the atom-based definition decides) ----
    try:
        na = {}
        for name, text, suf in (("v1-pdb", pdb_text, ".pdb"), ("v1-cif", cif_text, ".cif")):
            pth = emit.scratch_path(suf)
            with open(pth, "w") as fh:
                fh.write(text)
            with open(pth) as fh:
                na[name] = v1_map(parser.read_3d_structure(fh, None, nucleic_acid_only=True))[0]
        want_na = {k: v for k, v in readings["v1-pdb"].items() if objs["v1-pdb"][k].is_nucleotide}
        bad_na = next(((n, sorted(set(want_na) ^ set(m))[:4]) for n, m in na.items() if set(m) != set(want_na) or any(m[k] != want_na[k] for k in m)), None)
        rec.check("residues.nucleic-acid-only-same-from-both-formats", bad_na is None, lambda: det({"reader": bad_na[0], "differs-on": bad_na[1], "nucleotides-in-default-reading": len(want_na)}))
    except Exception as e:
        rec.violation("readers.no-crash", det({"exception": repr(e)[:300], "option": "nucleic_acid_only=True"}), mechanism=f"crash:{type(e).__name__}")
    # ---- connectivity: consecutive residues of each chain (table order) ----
    nchi = 0
    undecided = False
    bad_conn = None
    for a, b in zip(order, order[1:]):
        if a[0] != b[0]:
            continue
        o3, p = amap[a]["atoms"].get("O3'"), amap[b]["atoms"].get("P")
        if o3 is None or p is None:
            want, margin = False, math.inf
        else:
            d = math.dist(o3, p)
            want, margin = d < 2.4, abs(d - 2.4)
        if margin < 1e-6:
            undecided = True
            # on the limit the reference is silent, but the readers must still agree with each other
            at = {n: bool(objs[n][a].is_connected(objs[n][b])) for n in objs}
            rec.check("connectivity.readers-agree-on-the-limit", len(set(at.values())) == 1, lambda: det({"pair": (a, b), "O3'-P": d, "readers": at}))
            continue
        got = {n: bool(objs[n][a].is_connected(objs[n][b])) for n in objs}
        if any(v != want for v in got.values()):
            bad_conn = {"pair": (a, b), "reference": want, "readers": got}
    if undecided:
        rec.undecided("connectivity.pairwise-agree", "threshold-margin")
    rec.check("connectivity.pairwise-agree", bad_conn is None, lambda: det(bad_conn))
    # ---- connected segments of the table-level reader -----------------------
    if not undecided:
        want_segs = ref_segments(amap)
        for n, st in (("v2-pdb", st2p), ("v2-cif", st2c)):
            got_segs = sorted([tuple((str(r.chain_id), int(r.residue_number), r.insertion_code) for r in seg) for seg in st.connected_residues])
            rec.check("connectivity.segments", got_segs == sorted(want_segs), lambda: det({"reader": n, "got": got_segs[:4], "want": sorted(want_segs)[:4]}))
    # a caller may reorder the atom list it was handed (the repository's own
    # tests/test_v2.py sorts Residue.atoms_list in place by name before comparing):
    # later atom look-ups of the table-level reader must not depend on that order
    if int(core.chash(desc)[:2], 16) % 2 == 0:
        for st in (st2p, st2c):
            for r in st.residues:
                r.atoms_list.sort(key=lambda a: str(a.name))
        rec.count("note:atoms_list-sorted-in-place-before-torsions")
    # ---- |chi| -----------------------------------------------------------------
    chis = {}
    listed = {}
    for n in ("v1-pdb", "v1-cif"):
        for k, r in objs[n].items():
            try:
                c = r.chi
            except Exception:
                c = None
            if c is not None and not math.isnan(c):
                chis.setdefault(k, {})[n] = abs(c)
    for n, st in (("v2-pdb", st2p), ("v2-cif", st2c)):
        try:
            tab = st.torsion_angles
        except Exception as e:
            rec.violation("chi.no-crash", det({"reader": n, "exception": repr(e)[:200]}), mechanism=f"crash:{type(e).__name__}")
            continue
        for _, row in tab.iterrows():
            listed.setdefault(n, set()).add((str(row["chain_id"]), int(row["residue_number"]), row["insertion_code"] if isinstance(row["insertion_code"], str) else None))
            c = row.get("chi")
            if c is not None and not (isinstance(c, float) and math.isnan(c)):
                k = (str(row["chain_id"]), int(row["residue_number"]), row["insertion_code"] if isinstance(row["insertion_code"], str) else None)
                chis.setdefault(k, {})[n] = abs(float(c))
    # which residues have a glycosidic torsion at all: for a standard residue the four atoms of its own definition
    # decide, and every reader that lists the residue must agree (the table-level reader lists residues of connected
    # segments only)
    bad_has = None
    nhas = 0
    for k in order:
        if amap[k]["name"] not in STANDARD:
            continue
        names = ["O4'", "C1'", "N9", "C4"] if amap[k]["name"].lstrip("D") in ("A", "G") else ["O4'", "C1'", "N1", "C2"]
        want_has = all(x in amap[k]["atoms"] for x in names)
        got_has = {n: n in chis.get(k, {}) for n in ("v1-pdb", "v1-cif")}
        for n in ("v2-pdb", "v2-cif"):
            if k in listed.get(n, ()):
                got_has[n] = n in chis.get(k, {})
        nhas += 1
        if any(v != want_has for v in got_has.values()):
            bad_has = {"residue": k, "name": amap[k]["name"], "atoms-of-its-definition-present": want_has, "readers-report-chi": got_has, "atoms": sorted(amap[k]["atoms"])}
    if nhas:
        rec.check("chi.same-residues-have-one", bad_has is None, lambda: det(bad_has))
    bad_chi = None
    for k, d in chis.items():
        names = ["O4'", "C1'", "N9", "C4"] if "N9" in amap[k]["atoms"] and amap[k]["name"].upper().lstrip("D") in ("A", "G") else ["O4'", "C1'", "N1", "C2"]
        pts = [amap[k]["atoms"].get(x) for x in names]
        ref = None
        if all(p is not None for p in pts):
            t, m = geom.dihedral(*pts)
            if m > 1e-3:
                ref = abs(t)
        vals = list(d.values())
        if len(vals) >= 2:
            nchi += 1
        if max(vals) - min(vals) > 1e-9 or (ref is not None and any(abs(v - ref) > 1e-9 for v in vals) and amap[k]["name"].upper() in ("A", "C", "G", "U", "DA", "DC", "DG", "DT")):
            bad_chi = {"residue": k, "chi-magnitudes": d, "reference": ref}
    rec.check("chi.magnitudes-agree", bad_chi is None, lambda: det(bad_chi))
    rec.mark_nontrivial(nchi >= 2)


def ref_segments(amap):
    by = {}
    for k in amap:
        by.setdefault(k[0], []).append(k)
    segs = []
    for ch, ks in by.items():
        ks.sort(key=lambda k: (k[1], k[2] or ""))
        cur = []
        for k in ks:
            if not cur:
                cur = [k]
                continue
            o3, p = amap[cur[-1]]["atoms"].get("O3'"), amap[k]["atoms"].get("P")
            conn = o3 is not None and p is not None and math.dist(o3, p) < 2.4
            if conn:
                cur.append(k)
            else:
                if len(cur) > 1:
                    segs.append(tuple(cur))
                cur = [k]
        if len(cur) > 1:
            segs.append(tuple(cur))
    return segs


def classify(v):
    return v.get("mechanism")
