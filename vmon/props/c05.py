"""C05 - annotation depends only on internal geometry and identity, not on presentation.
Metamorphic twins: the real annotator + 2D mapping run on a case and on its
transformed twin; the two recorded outputs are compared modulo the renaming."""
import os
import random

import numpy as np

from vmon import core, gen3d
from vmon.oracles import g3d

ID = "C05"
LEVEL = "exploration"
RULE = (
    "cases: (corpus structure or perturbed corpus structure, twin) with twin in {T1 random rotation o translation <= 500 A / one of "
    "the 24 axis permutations, T2 atom order shuffled inside residues, T3 chains renamed by an order-preserving map and residue "
    "numbers shifted per chain (with and without gap detection) or mapped strictly increasingly (without), T4 the same 3-decimal "
    "atom table supplied as PDB text and as mmCIF text through the real readers}; hostile bases (insertion codes, reversed residue / chain order, negative residue "
    "numbers) under every twin kind; twins compared after other conformations with the same identifiers (jittered copies, the other models of an NMR ensemble) "
    "were annotated in the same process. Both members are pushed through "
    "extract_secondary_structure; interaction lists, BPSEQ, dot-bracket and extended dot-bracket are compared after renaming. A pair "
    "is compared only if every decision quantity (contact distance/angles, cis-trans torsion, stacking quantities, BPh torsions) of "
    "BOTH members is >= 1e-6 from its threshold (measured by the dense evaluator). Non-trivial = base annotation has >= 1 "
    "interaction and the pair was compared; distinct = canonical JSON hash of the case descriptor."
)
ASSUMPTIONS = ["margins measured by vmon/oracles/g3d.py", "T4 uses the independent emitter vmon/emit.py and only tables inside PDB limits"]
REQUIRED_CLAUSES = ["twin.interactions-equal", "twin.bpseq-equal", "twin.dot-bracket-equal", "twin.extended-equal"]
_cur = {}


def setup(rec, reach):
    from rnapolis import annotator

    _cur["rec"] = rec
    reach.add(annotator.find_pairs, "find_pairs")
    reach.add(annotator.find_stackings, "find_stackings")


def cases(shard, nshards, seed, tier):
    k = 0

    def mine():
        nonlocal k
        k += 1
        return (k - 1) % nshards == shard

    files = gen3d.corpus_files()
    if tier == "quick":
        files = [f for f in files if os.path.getsize(os.path.join(core.REPO, f)) < 1_200_000]
    n1, n2, n3 = (8, 4, 4) if tier == "quick" else (40, 20, 20)
    for fn in files:
        variants = [[]]
        if tier == "thorough":
            variants += [[{"op": "jitter", "seed": f"{seed}:{fn}:j", "sigma": 0.05}], [{"op": "thin-res", "seed": f"{seed}:{fn}:t", "frac": 0.15}]]
        for vi, base_ops in enumerate(variants):
            for t in range(n1):
                rng = random.Random(f"{seed}:C05:{fn}:{vi}:T1:{t}")
                if t % 4 == 3:
                    tw = {"kind": "T1", "ops": [{"op": "axisperm", "k": rng.randrange(24), "trans": [rng.choice([0.0, 250.0, -500.0]) for _ in range(3)]}]}
                else:
                    tw = {"kind": "T1", "ops": [{"op": "rigid", "seed": f"{seed}:{fn}:{vi}:{t}", "trans": [rng.uniform(-500, 500) for _ in range(3)]}]}
                if mine():
                    yield {"family": "T1-rigid", "file": fn, "base_ops": base_ops, "twin": tw}
            # translations that put one atom exactly on the origin (zero coordinates are ordinary coordinates)
            for t in range(3 if tier == "quick" else 12):
                if mine():
                    yield {"family": "T1-atom-on-origin", "file": fn, "base_ops": base_ops, "twin": {"kind": "T1", "ops": [{"op": "atom-to-origin", "seed": f"{seed}:{fn}:{vi}:o{t}"}]}}
            for t in range(n2):
                if mine():
                    yield {"family": "T2-atom-order", "file": fn, "base_ops": base_ops, "twin": {"kind": "T2", "ops": [{"op": "shuffle-atoms", "seed": f"{seed}:{fn}:{vi}:s{t}"}]}}
            for t in range(n3):
                rng = random.Random(f"{seed}:C05:{fn}:{vi}:T3:{t}")
                gaps = t % 2 == 0
                mode = "shift" if gaps or rng.random() < 0.5 else "increasing"
                if mine():
                    yield {"family": "T3-relabel", "file": fn, "base_ops": base_ops, "twin": {"kind": "T3", "prefix": rng.choice(["Q", "a", "0"]), "mode": mode, "seed": f"{seed}:{fn}:{vi}:r{t}", "gaps": gaps}}
    # T4: format twins, also after translating the table into ranges where the
    # PDB coordinate fields are completely filled (z <= -100, x >= 1000)
    for fn in files:
        if mine():
            yield {"family": "T4-format", "file": fn, "base_ops": [], "twin": {"kind": "T4"}}
        for t, trans in enumerate([[0.0, 0.0, -400.0], [1200.0, -300.0, 0.0], [-350.0, 2000.0, -150.0]] if tier == "thorough" else [[900.0, -350.0, -400.0], [-300.0, 1500.0, -120.0]]):
            if mine():
                yield {"family": "T4-format-translated", "file": fn, "base_ops": [{"op": "axisperm", "k": 0, "trans": trans}], "twin": {"kind": "T4"}}
    # insertion codes renamed away: 17, 17A, 17B ... against 1, 2, 3 ... (both are order-preserving names of the same residues)
    for fn in [f for f in files if f.endswith(("1ehz-assembly-1.cif", "1A1T_1_B.cif", "4qln.cif", "1E7K_1_C.cif", "488d.pdb", "1gid.cif.gz"))]:
        for t, base in enumerate(([{"op": "icodes", "seed": "c05s1", "frac": 0.9, "runs": [2, 2, 3]}], [{"op": "icodes", "seed": "c05s2", "frac": 0.6}])):
            if fn.endswith("488d.pdb") and t:
                base = []  # 488d carries insertion codes of its own
            if mine():
                yield {"family": "T3-icodes-vs-sequential", "file": fn, "base_ops": base, "twin": {"kind": "T3", "prefix": "s", "mode": "sequential", "seed": f"{fn}:seq{t}", "gaps": False}}
    # the corpus itself holds one structure in both formats: the deposited files, read with default arguments
    if mine():
        yield {"family": "corpus-format-pair", "file": "tests/4qln.cif", "other": "tests/4qln.pdb", "base_ops": [], "twin": {"kind": "pair"}}
    if mine():
        yield {"family": "corpus-format-pair-cli", "file": "tests/4qln.cif", "other": "tests/4qln.pdb", "base_ops": [], "twin": {"kind": "pair-cli"}}
    # NMR ensembles: the other models (same identifiers, other geometry) are annotated first
    for fn in [f for f in gen3d.corpus_files() if f.endswith(("2HY9.cif", "6RS3.cif"))]:
        for tw in ({"kind": "T3", "prefix": "a", "mode": "shift", "seed": f"{fn}:ens3", "gaps": False}, {"kind": "T4"},
                   {"kind": "T1", "ops": [{"op": "rigid", "seed": f"{fn}:ens1", "trans": [10.0, 20.0, -30.0]}]}):
            if mine():
                yield {"family": "ensemble-models-first", "file": fn, "base_ops": [], "twin": tw, "pre_models": list(range(10, 1, -1))}
    # format twins of tables with alternate conformers whose best-occupied conformer is (mostly) labelled B
    for fn in [f for f in files if f.endswith(("1ATO.pdb", "1A1T_1_B.cif", "1E7K_1_C.cif", "1ehz-assembly-1.cif", "4WTI_1_T-P.cif"))]:
        for t in range(2 if tier == "quick" else 6):
            if mine():
                yield {"family": "T4-format-alternate-conformers", "file": fn, "base_ops": [], "twin": {"kind": "T4", "altlocs": f"{seed}:{fn}:alt{t}"}}
    # format twins of tables whose PDB fields are filled to their edges (HETATM10001, x <= -100, negative numbers), and
    # of tables in which one atom sits exactly on the origin (coordinate fields reading 0.000)
    for fn in [f for f in files if f.endswith(("1ehz-assembly-1.cif", "1ATO.pdb", "1E7K_1_C.cif", "4qln.pdb", "488d.pdb"))]:
        for t in range(1 if tier == "quick" else 5):
            if mine():
                yield {"family": "T4-format-field-edges", "file": fn, "base_ops": [], "twin": {"kind": "T4", "edges": f"{seed}:{fn}:edges{t}"}}
            if mine():
                yield {"family": "T4-format-atom-on-origin", "file": fn, "base_ops": [{"op": "atom-to-origin", "seed": f"{seed}:{fn}:o4{t}"}], "twin": {"kind": "T4"}}
    # size: eight copies of a 316-nucleotide RNA in one structure (more than 25 000 donor / acceptor atoms), rigidly moved
    for t in range(1 if tier == "quick" else 3):
        if mine():
            yield {"family": "T1-rigid-large-assembly", "file": "tests/1gid.cif.gz", "base_ops": [{"op": "copies", "n": 8}],
                   "twin": {"kind": "T1", "ops": [{"op": "rigid", "seed": f"{seed}:large:{t}", "trans": [37.0, -112.0, 255.0]}]}}
    # format twins in which the last nucleotide (and two others) is a modified component whose name does not end in a base
    # letter; the mmCIF member carries the canonical sequence, the PDB member only the atoms
    for fn in [f for f in files if f.endswith(("1ATO.pdb", "1A1T_1_B.cif", "1E7K_1_C.cif", "1ehz-assembly-1.cif"))]:
        if mine():
            yield {"family": "T4-format-modified-last-residue", "file": fn, "base_ops": [], "twin": {"kind": "T4", "modified": f"{seed}:{fn}:mod"}}
    for m in (2, 5, 9):
        if mine():
            yield {"family": "T4-written-by-the-library-model-selection", "file": "tests/2HY9.cif", "base_ops": [], "twin": {"kind": "T4W", "model": m}}
    # rigid motion of the file itself, with chains of nearly superposed copies (a-b and b-c closer than 0.5 A, a-c not)
    for fn in [f for f in files if f.endswith(("1ATO.pdb", "1A1T_1_B.cif", "1E7K_1_C.cif", "1HMH_1_E.cif", "184D.cif"))]:
        for t in range(2 if tier == "quick" else 10):
            if mine():
                rng = random.Random(f"{seed}:T1R:{fn}:{t}")
                yield {"family": "T1-file-in-another-frame", "file": fn, "base_ops": [], "twin": {
                    "kind": "T1R", "k": rng.randrange(1, 24), "trans": [rng.choice([0.0, 12.5, -40.0]) for _ in range(3)], "copies": rng.choice([2, 2, 3]),
                    "step": rng.choice([0.4, 0.3, 0.45]), "occ": rng.choice([1.0, 0.5]), "fmt": rng.choice([".pdb", ".cif"]), "seed": f"{seed}:{fn}:{t}"}}
    # format twins with gap detection on: missing residues (author numbers jump while the mmCIF label index does not)
    for fn in [f for f in files if f.endswith(("1E7K_1_C.cif", "1ehz-assembly-1.cif", "1A1T_1_B.cif", "4qln.cif", "488d.pdb"))]:
        for t in range(2 if tier == "quick" else 8):
            if mine():
                yield {"family": "T4-format-gap-detection", "file": fn, "base_ops": [{"op": "thin-res", "seed": f"{seed}:{fn}:gap{t}", "frac": 0.12}] if t else [], "twin": {"kind": "T4", "gaps": True}}
    # hostile identities / orders under every twin kind
    hostile_bases = [[{"op": "icodes", "seed": "c05h1", "frac": 0.7}], [{"op": "chain-order", "seed": "c05h2", "mode": "reverse"}], [{"op": "reverse-res"}],
                     [{"op": "renumber", "first": -9}], [{"op": "renumber", "first": -998}]]
    for fn in [f for f in files if f.endswith(("1ehz-assembly-1.cif", "4WTI_1_T-P.cif", "1A1T_1_B.cif", "4qln.cif", "1E7K_1_C.cif"))]:
        for hb in hostile_bases:
            for tw in ({"kind": "T1", "ops": [{"op": "rigid", "seed": f"{fn}:hb", "trans": [100.0, -200.0, 300.0]}]}, {"kind": "T2", "ops": [{"op": "shuffle-atoms", "seed": f"{fn}:hb2"}]},
                       {"kind": "T3", "prefix": "Q", "mode": "shift", "seed": f"{fn}:hb3", "gaps": True}, {"kind": "T4"}):
                if mine():
                    yield {"family": "hostile-base-" + hb[0]["op"], "file": fn, "base_ops": hb, "twin": tw}
        # other conformations carrying the same residue identifiers are annotated first in the same process
        # (trajectory frames, decoys), then the twins of the unperturbed structure are compared
        for tw in ({"kind": "T3", "prefix": "Q", "mode": "shift", "seed": f"{fn}:pre3", "gaps": False}, {"kind": "T4"}):
            if mine():
                yield {"family": "other-conformations-first", "file": fn, "base_ops": [], "twin": tw,
                       "pre": [[{"op": "jitter", "seed": f"{seed}:{fn}:pre{k}", "sigma": sg}] for k, sg in enumerate([0.4, 0.8, 1.2])]}
        if tier == "thorough":
            for t in range(3):
                if mine():
                    yield {"family": "T4-format", "file": fn, "base_ops": [{"op": "jitter", "seed": f"{seed}:{fn}:f{t}", "sigma": 0.1}, {"op": "thin-res", "seed": f"{seed}:{fn}:ft{t}", "frac": 0.1}], "twin": {"kind": "T4"}}


def min_margin(structure):
    """Smallest distance of any decision quantity to its threshold."""
    snap = g3d.snapshot(structure, None)
    m = np.inf
    contacts = g3d.hbond_contacts(snap, include_o2p=True)
    touched = set()
    for c in contacts:
        m = min(m, c.margin)
        if c.inside:
            touched.add((c.i, c.j))
    for i, j in touched:
        ct, mm = g3d.cis_trans(snap[i], snap[j])
        if ct is not None:
            m = min(m, mm)
    for c in g3d.stacking_candidates(snap):
        if c.get("normals") and "dot" in c:
            m = min(m, abs(c["dist"] - g3d.STACK_MAX))
            if c["dist"] <= g3d.STACK_MAX:
                m = min(m, abs(c["ang_normals"] - g3d.STACK_NORMALS), abs(c["off_ij"] - g3d.STACK_OFFSET), abs(c["off_ji"] - g3d.STACK_OFFSET), abs(c["dot"]))
    for acc in (g3d.PHOSPHATE_ACCEPTORS, g3d.RIBOSE_ACCEPTORS):
        for lst in g3d.backbone_contacts(snap, acc).values():
            for c in lst:
                m = min(m, c[4])
    return float(m)


def record(structure, find_gaps):
    """Canonical record of the real code's output on one structure."""
    from rnapolis import annotator

    s2d, _ = annotator.extract_secondary_structure(structure, None, find_gaps)
    bi = s2d.baseInteractions

    def r(x):
        l = (x.label.chain, x.label.number, x.label.name) if x.label is not None else None
        a = (x.auth.chain, x.auth.number, x.auth.icode, x.auth.name) if x.auth is not None else None
        return (l, a)

    inter = []
    for p in bi.basePairs:
        inter.append(("pair", r(p.nt1), r(p.nt2), p.lw.value, p.saenger.value if p.saenger else None))
    for p in bi.stackings:
        inter.append(("stack", r(p.nt1), r(p.nt2), p.topology.value if p.topology else None))
    for p in bi.baseRiboseInteractions:
        inter.append(("br", r(p.nt1), r(p.nt2), p.br.value if p.br else None))
    for p in bi.basePhosphateInteractions:
        inter.append(("bph", r(p.nt1), r(p.nt2), p.bph.value if p.bph else None))
    return {"inter": inter, "bpseq": s2d.bpseq, "dbn": s2d.dotBracket, "ext": s2d.extendedDotBracket}


def _relabel_twin(structure, tw):
    """Returns (twin structure, residue-key map, chain map)."""
    from rnapolis.common import ResidueAuth, ResidueLabel

    rng = random.Random(tw["seed"])
    pre = tw["prefix"]
    chains = []
    for r in structure.residues:
        if r.chain not in chains:
            chains.append(r.chain)
    shift = {c: rng.choice([-300, -17, 5, 1000, 0]) for c in chains}
    if tw["mode"] == "increasing":
        fn = lambda c, n: 3 * n + shift[c]
    else:
        fn = lambda c, n: n + shift[c]
    # "sequential": every chain renumbered 1, 2, 3, ... in file order WITHOUT insertion codes (order-preserving
    # whenever the file lists each chain in ascending order); residues that shared a number (20, 20A) no longer do
    seqno = {}
    if tw["mode"] == "sequential":
        counter = {}
        for ri, r in enumerate(structure.residues):
            counter[r.chain] = counter.get(r.chain, 0) + 1
            seqno[ri] = counter[r.chain]
    keymap = {}
    # "single": one-character chain names (so that the table still fits PDB), order-preserving
    single = {c: "klmnopqrstuvwxyz"[k] for k, c in enumerate(sorted(chains))} if tw.get("single") and len(chains) <= 16 else None
    cn = (lambda c: single[c]) if single else (lambda c: pre + c)

    def relabel(ri, r):
        lab = r.label
        auth = r.auth
        c = r.chain
        if seqno:
            nl = ResidueLabel(cn(lab.chain) if lab.chain in chains else pre + lab.chain, seqno[ri], lab.name) if lab is not None else None
            na = ResidueAuth(cn(auth.chain) if auth.chain in chains else pre + auth.chain, seqno[ri], None, auth.name) if auth is not None else None
        else:
            nl = ResidueLabel(cn(lab.chain) if lab.chain in chains else pre + lab.chain, fn(c, lab.number), lab.name) if lab is not None else None
            na = ResidueAuth(cn(auth.chain) if auth.chain in chains else pre + auth.chain, fn(c, auth.number), auth.icode, auth.name) if auth is not None else None
        old = ((lab.chain, lab.number, lab.name) if lab is not None else None, (auth.chain, auth.number, auth.icode, auth.name) if auth is not None else None)
        new = ((nl.chain, nl.number, nl.name) if nl is not None else None, (na.chain, na.number, na.icode, na.name) if na is not None else None)
        keymap[old] = new
        return nl, na

    twin = gen3d.rebuild(structure, relabel=relabel)
    return twin, keymap, {c: cn(c) for c in chains}


def _pair_cli(case, rec):
    """The deposited mmCIF and PDB files of one structure through the command-line tool: what it prints and writes
    (dot-bracket, BPSEQ, CSV with author names) must be the same for both formats."""
    import contextlib
    import io
    import shutil
    import sys
    import tempfile

    from rnapolis import annotator

    ok, why = _same_atoms(case["file"], case["other"])
    if not ok:
        rec.undecided("twin.cli-outputs-equal", "corpus pair does not hold the same atoms: " + why)
        return
    outs = []
    d = tempfile.mkdtemp(prefix="vmon-c05-")
    try:
        for k, fn in enumerate((case["file"], case["other"])):
            pc, pb = os.path.join(d, f"o{k}.csv"), os.path.join(d, f"o{k}.bpseq")
            old, buf = sys.argv, io.StringIO()
            sys.argv = ["annotator", "--csv", pc, "--bpseq", pb, os.path.join(core.REPO, fn)]
            try:
                with contextlib.redirect_stdout(buf):
                    annotator.main()
                err = None
            except BaseException as e:
                err = repr(e)
            finally:
                sys.argv = old
            outs.append({"error": err, "stdout": buf.getvalue(), "csv": open(pc).read() if os.path.exists(pc) else None, "bpseq": open(pb).read() if os.path.exists(pb) else None})
    finally:
        shutil.rmtree(d, ignore_errors=True)
    rec.mark_nontrivial(True)
    diff = [k for k in ("error", "stdout", "csv", "bpseq") if outs[0][k] != outs[1][k]]
    rec.check("twin.cli-outputs-equal", not diff and outs[0]["error"] is None,
              lambda: {"files": [case["file"], case["other"]], "differ": diff, "errors": [o["error"] for o in outs],
                       "sizes": {k: [len(o[k] or "") for o in outs] for k in ("stdout", "csv", "bpseq")}})


def run_case(case, rec):
    tw = case["twin"]
    if tw["kind"] == "pair-cli":
        return _pair_cli(case, rec)
    find_gaps = bool(tw.get("gaps", False))
    base = gen3d.load(case["file"], 1 if case.get("pre_models") else None)
    # process history: same identifiers, other geometry, annotated first (results not judged here).
    # The whole family gets chain names no earlier case of this worker has used, so that what the
    # process remembers about these identifiers comes from the other conformations, in this order.
    fresh = None
    if case.get("pre_models") or case.get("pre"):
        fresh = {"prefix": "h" + core.chash(case)[:3], "mode": "shift", "seed": "history", "single": tw["kind"] == "T4"}
        base = _relabel_twin(base, fresh)[0]
    for m in case.get("pre_models", []):
        try:
            # as a single-model file of that conformer would present it: model number 1
            record(_relabel_twin(gen3d.rebuild(gen3d.load(case["file"], m), model=1), fresh)[0], find_gaps)
        except Exception:
            pass
    for ops in case.get("pre", []):
        try:
            record(gen3d.apply_ops(base, ops), find_gaps)
        except Exception:
            pass
    if case["base_ops"]:
        base = gen3d.apply_ops(base, case["base_ops"])
    keymap = None
    chainmap = None
    if tw["kind"] == "pair":
        ok, why = _same_atoms(case["file"], case["other"])
        if not ok:
            rec.undecided("twin.interactions-equal", "corpus pair does not hold the same atoms: " + why)
            return
        twin = gen3d.load(case["other"])
    elif tw["kind"] in ("T1", "T2"):
        twin = gen3d.apply_ops(base, tw["ops"])
    elif tw["kind"] == "T3":
        if tw["mode"] == "sequential":
            # 1, 2, 3 ... in file order is an ORDER-PRESERVING renaming only if every chain is listed in
            # ascending (number, insertion code) order (488d numbers strand A downwards: not in the domain)
            last = {}
            for r in base.residues:
                k = (r.auth.number, r.auth.icode or " ") if r.auth is not None else (r.label.number, " ")
                if r.chain in last and k <= last[r.chain]:
                    rec.skip("twin.interactions-equal", "sequential renaming is not order-preserving for this file")
                    return
                last[r.chain] = k
        twin, keymap, chainmap = _relabel_twin(base, tw)
    elif tw["kind"] == "T4W":
        # format twins written by the LIBRARY: a selection of models of an ensemble (numbers 2, 5, 9) as one table, written
        # as mmCIF and - after fitting - as PDB; the requested model read back from either text
        from rnapolis import parser_v2
        from vmon import emit

        rows = []
        for m in (2, 5, 9):
            rows += emit.rows_from_structure(gen3d.load(case["file"], m))
        for i, r in enumerate(rows, 1):
            r["serial"] = i
        try:
            df = parser_v2.parse_cif_atoms(emit.emit_cif(rows))
            cif_text = parser_v2.write_cif(df)
            pdb_text = parser_v2.write_pdb(parser_v2.fit_to_pdb(df))
            base = emit.read_text(cif_text, ".cif", tw["model"])
        except Exception as e:
            rec.undecided("twin.interactions-equal", f"{type(e).__name__} while writing / reading the base")
            return
        try:
            twin = emit.read_text(pdb_text, ".pdb", tw["model"])
        except Exception as e:
            rec.violation("twin.no-crash", {"twin": tw, "exception": repr(e)[:300]}, mechanism=f"crash:{type(e).__name__}")
            return
    elif tw["kind"] == "T1R":
        # a rigid motion of the FILE: the text of a table (with chains of nearly superposed copies, which the reader
        # thins out) and the text of the same table in another frame - an axis permutation plus a decimal translation,
        # exact on three-decimal coordinates - both read by the real reader
        from vmon import emit
        from vmon.oracles import geom

        rows = emit.rows_from_structure(base)
        used = sorted({r["chain"] for r in rows})
        free = [c for c in "ZYXWVUTSRQzyxwvuts98765432" if c not in used]
        ncopies = tw["copies"]
        if not rows or len(free) < len(used) * ncopies or any(not (c or "").strip() or len(c) != 1 for c in used):
            rec.skip("twin.interactions-equal", "no free one-character chain names for the copies")
            return
        rng = random.Random(tw["seed"])
        keys = []
        for r in rows:
            k = (r["chain"], r["resseq"], r["icode"])
            if k not in keys:
                keys.append(k)
        chosen = set(rng.sample(keys, max(1, len(keys) // 3)))
        step = tw["step"]
        copies = []
        for c in range(1, ncopies + 1):
            for r in rows:
                if (r["chain"], r["resseq"], r["icode"]) in chosen:
                    copies.append(dict(r, chain=free[used.index(r["chain"]) * ncopies + c - 1], x=round(r["x"] + c * step, 3)))
        rows = rows + copies
        for r in rows:
            r["occ"] = tw["occ"]
        for i, r in enumerate(rows, 1):
            r["serial"] = i
        R = geom.axis_permutations()[tw["k"]]
        moved = []
        for r in rows:
            v = R @ np.array([r["x"], r["y"], r["z"]])
            moved.append(dict(r, x=round(float(v[0]) + tw["trans"][0], 3), y=round(float(v[1]) + tw["trans"][1], 3), z=round(float(v[2]) + tw["trans"][2], 3)))
        if not emit.fits_pdb(rows) or not emit.fits_pdb(moved):
            rec.skip("twin.interactions-equal", "outside-PDB-limits")
            return
        em = emit.emit_pdb if tw["fmt"] == ".pdb" else emit.emit_cif
        try:
            base = emit.read_text(em(rows), tw["fmt"])
        except Exception as e:
            rec.undecided("twin.interactions-equal", f"reader raised {type(e).__name__} on the base text")
            return
        try:
            twin = emit.read_text(em(moved), tw["fmt"])
        except Exception as e:
            rec.violation("twin.no-crash", {"twin": tw, "exception": repr(e)[:300]}, mechanism=f"crash:{type(e).__name__}")
            return
    else:
        from vmon import emit

        res = emit.format_twins(base, altloc_seed=tw.get("altlocs"), edges_seed=tw.get("edges"), modified_seed=tw.get("modified"))
        if res is None:
            rec.skip("twin.interactions-equal", "outside-PDB-limits-or-multi-char-chain")
            return
        base, twin = res
    try:
        ra = record(base, find_gaps)
    except Exception as e:
        rec.undecided("twin.interactions-equal", f"base raised {type(e).__name__}")
        return
    try:
        rb = record(twin, find_gaps)
    except Exception as e:
        rec.violation("twin.no-crash", {"twin": tw, "exception": repr(e)[:300]}, mechanism=f"crash:{type(e).__name__}")
        return
    ma, mb = min_margin(base), min_margin(twin)
    if min(ma, mb) < g3d.EPS:
        rec.skip("twin.interactions-equal", "margin<1e-6")
        return
    rec.mark_nontrivial(len(ra["inter"]) > 0)
    ia = ra["inter"]
    if tw["kind"] in ("T4", "T4W", "pair"):
        # the PDB reader has no label identity: compare on author identity
        strip = lambda lst: [(x[0], (None, x[1][1]), (None, x[2][1])) + tuple(x[3:]) for x in lst]
        ia = strip(ia)
        rb["inter"] = strip(rb["inter"])
    if keymap is not None:
        ia = [(x[0], keymap.get(x[1], x[1]), keymap.get(x[2], x[2])) + tuple(x[3:]) for x in ia]
    det = lambda extra: {"file": case["file"], "twin": tw, "base_ops": case["base_ops"], "info": extra, "min_margin": [ma, mb]}
    same = ia == rb["inter"]
    if not same:
        sa, sb = set(ia), set(rb["inter"])
        extra = {"only-in-base": sorted(map(str, sa - sb))[:6], "only-in-twin": sorted(map(str, sb - sa))[:6], "same-set-different-order": sa == sb}
        rec.violation("twin.interactions-equal", det(extra), mechanism=_mech(sa, sb))
    else:
        rec.ok("twin.interactions-equal")
    rec.check("twin.bpseq-equal", ra["bpseq"] == rb["bpseq"], lambda: det({"a": ra["bpseq"][:200], "b": rb["bpseq"][:200]}))

    def ren(text):
        if chainmap is None:
            return text
        out = []
        for line in text.splitlines():
            k = line.find(">strand_")
            if k >= 0:
                c = line[k + 8 :]
                line = line[: k + 8] + chainmap.get(c, c)
            out.append(line)
        return "\n".join(out)

    rec.check("twin.dot-bracket-equal", ren(ra["dbn"]) == rb["dbn"], lambda: det({"a": ra["dbn"][:300], "b": rb["dbn"][:300]}))
    rec.check("twin.extended-equal", ren(ra["ext"]) == rb["ext"], lambda: det({"a": ra["ext"][:300], "b": rb["ext"][:300]}))


def _same_atoms(cif, pdb):
    """Do the two deposited files hold the same atoms (independent readers, author identity, 3 decimals)?"""
    from vmon.props import c08

    out = []
    for fn in (cif, pdb):
        path = os.path.join(core.REPO, fn)
        try:
            rows, _ = c08._raw_rows(path, open(path).read())
        except Exception as e:
            return False, f"{fn}: {type(e).__name__}"
        first = rows[0]["model"] if rows else None
        out.append(sorted((r["chain"], r["resseq"], r["icode"], r["resname"], r["name"], round(r["x"], 3), round(r["y"], 3), round(r["z"], 3)) for r in rows if r["model"] == first))
    if out[0] != out[1]:
        d = next((a, b) for a, b in zip(out[0] + [None], out[1] + [None]) if a != b)
        return False, str(d)[:200]
    return True, ""


def _mech(sa, sb):
    kinds = {x[0] for x in (sa ^ sb)}
    if kinds <= {"br", "bph"}:
        return "backbone-contact-class-differs"
    return None


def classify(v):
    return v.get("mechanism")
