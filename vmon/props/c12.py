"""C12 - secondary-structure objects are pure (history + fresh-object model)."""
import random

from vmon import core, gen2d, mon2d
from vmon.oracles import o2d

ID = "C12"
LEVEL = "exploration"
RULE = (
    "cases: (structure, history) pairs - structures with isolated pairs, knots and nested stems (hostile list, all "
    "matchings N<=6, random stem-built); histories = sequences of public calls (str, pairs, sequence, dot_bracket, fcfs, "
    "all_dot_brackets, elements, without_pseudoknots, without_isolated, ==) on a pool of objects where derived objects "
    "join the pool; all 2-step orders exhaustively on the hostile list, random histories of length <=4 (quick) / <=8 "
    "(thorough). After every step every pool object's text/pairs/entries are compared with their values at creation and "
    "the step's answer with the answer of a fresh copy. Non-trivial = structure has a pair and history has >=2 steps; "
    "distinct = canonical JSON hash of (structure, history)."
)
ASSUMPTIONS = [
    "fresh-object model = BpSeq.from_string(text at creation), rebuilt for every step",
    "all_dot_brackets answers are compared as sets (order is C14's business)",
]
REQUIRED_CLAUSES = ["history.answer-equals-fresh", "history.objects-unchanged", "without_pseudoknots.exact", "without_isolated.exact"]
LANDMARKS = {
    "without_isolated-unpair": ("BpSeq.without_isolated", "to_unpair.append(stem.strand3p.first - 1)"),
    "without_isolated-noop": ("BpSeq.without_isolated", "return self"),
}
OPS = ["str", "pairs", "paired", "paired5to3", "sequence", "dot_bracket", "fcfs", "all_dot_brackets", "elements", "without_pseudoknots", "without_isolated", "eq_fresh",
       "convert_none", "convert_cbc", "convert_broken"]
_cur = {}


def setup(rec, reach):
    from rnapolis import common

    _cur["rec"] = rec
    B = common.BpSeq
    reach.add(B.__dict__["without_isolated"], "BpSeq.without_isolated")
    reach.add(B.__dict__["without_pseudoknots"], "BpSeq.without_pseudoknots")


def _canon_elements(el):
    return [[str(x) for x in part] for part in el]


def _apply(obj, op, fresh_text):
    """Returns (plain answer, derived BpSeq or None)."""
    from rnapolis import common

    if op == "str":
        return str(obj), None
    if op == "pairs":
        return sorted(obj.pairs.items()), None
    if op == "paired":
        return [(e.index_, e.pair) for e in obj.paired()], None
    if op == "paired5to3":
        return [(e.index_, e.pair) for e in obj.paired(only5to3=True)], None
    if op == "sequence":
        return obj.sequence, None
    if op == "dot_bracket":
        return obj.dot_bracket.structure, None
    if op == "fcfs":
        return obj.fcfs.structure, None
    if op == "all_dot_brackets":
        return sorted({d.structure for d in obj.all_dot_brackets}), None
    if op == "elements":
        return _canon_elements(obj.elements), None
    if op == "without_pseudoknots":
        d = obj.without_pseudoknots()
        return str(d), d
    if op == "without_isolated":
        d = obj.without_isolated()
        return str(d), d
    if op == "convert_none":
        # the documented "no solver" path of the explicit entry point
        return obj.convert_to_dot_bracket(None).structure, None
    if op == "convert_cbc":
        import pulp

        return obj.convert_to_dot_bracket(pulp.PULP_CBC_CMD(msg=False)).structure, None
    if op == "convert_broken":
        # the explicit entry point with a back-end that cannot run (its executable does not exist): the documented
        # answer is the first-come-first-served notation, and nothing about the object may change
        import pulp

        core.SolverWatch.injecting += 1
        try:
            return obj.convert_to_dot_bracket(pulp.COIN_CMD(path="/nonexistent/vmon/cbc", msg=False)).structure, None
        finally:
            core.SolverWatch.injecting -= 1
    if op == "eq_fresh":
        return obj == common.BpSeq.from_string(fresh_text), None
    raise KeyError(op)


def _state(obj):
    return (str(obj), sorted(obj.pairs.items()), [(e.index_, e.sequence, e.pair) for e in obj.entries])


def cases(shard, nshards, seed, tier):
    k = 0

    def mine():
        nonlocal k
        k += 1
        return (k - 1) % nshards == shard

    structs = [(name, n, pairs) for name, n, pairs in gen2d.hostile() if not name.startswith("ladder") and n > 0]
    # all ordered pairs / triples of ops on hostile structures
    for name, n, pairs in structs:
        for a in OPS:
            for b in OPS:
                if mine():
                    yield {"family": "hostile-2step", "n": n, "pairs": pairs, "history": [[0, a], [0, b]]}
                # the same second op on the object derived by the first
                if a.startswith("without") and mine():
                    yield {"family": "hostile-2step-derived", "n": n, "pairs": pairs, "history": [[0, a], [1, b], [0, "str"]]}
    if tier == "thorough":
        for name, n, pairs in structs[:8]:
            for a in OPS:
                for b in OPS:
                    for c in OPS:
                        if mine():
                            yield {"family": "hostile-3step", "n": n, "pairs": pairs, "history": [[0, a], [0, b], [0, c]]}
    # long molecules: isolated pairs and proper stems far from the 5' end (indices beyond 256, 1000)
    for t in range(3 if tier == "quick" else 20):
        rng = random.Random(f"{seed}:C12:long:{t}")
        pairs, pos = [], rng.randint(1, 30)
        while pos < 1300:
            L = rng.choice([1, 1, 2, 3])
            for q in range(L):
                pairs.append((pos + q, pos + 2 * L + 3 - q))
            pos += 2 * L + 4 + rng.randint(0, 40)
        n = pos + 5
        for hist in ([[0, "without_isolated"], [0, "str"]], [[0, "without_pseudoknots"], [1, "without_isolated"], [0, "pairs"]]):
            if mine():
                yield {"family": "long-molecule", "n": n, "pairs": sorted(pairs), "history": hist}
    # more than a hundred stems with a knot whose first-come-first-served levels are not the optimal ones
    for t in range(2 if tier == "quick" else 8):
        rng = random.Random(f"{seed}:C12:manystems:{t}")
        a, bl = rng.randint(1, 2), rng.randint(3, 5)
        pairs = [(1 + q, 2 * a + bl + 4 - q) for q in range(a)] + [(a + 3 + q, 2 * a + 2 * bl + 6 - q) for q in range(bl)]
        pos = 2 * a + 2 * bl + 9
        for _ in range(rng.randint(105, 130)):
            pairs += [(pos, pos + 6), (pos + 1, pos + 5)]
            pos += 9
        for hist in ([[0, "without_pseudoknots"], [0, "dot_bracket"], [0, "without_pseudoknots"]], [[0, "without_isolated"], [1, "without_pseudoknots"], [0, "str"]]):
            if mine():
                yield {"family": "many-stems-knot-first", "n": pos + 2, "pairs": sorted(pairs), "history": hist}
    # ten (thorough: also eleven) independent pseudoknots whose two stems are equally long: 1024 (2048) members in the
    # list of all notations, read twice on one object
    for units in (10,) + ((11,) if tier != "quick" else ()):
        name, n, pairs = gen2d.many_small_knots(units, a=2, b=2)
        for hist in ([[0, "all_dot_brackets"], [0, "all_dot_brackets"], [0, "dot_bracket"]], [[0, "dot_bracket"], [0, "all_dot_brackets"], [0, "all_dot_brackets"]]):
            if mine():
                yield {"family": "thousand-notations", "n": n, "pairs": pairs, "history": hist}
    nmax = 6 if tier == "quick" else 7
    for n in range(2, nmax + 1):
        for pairs in gen2d.matchings(n):
            if not pairs or not mine():
                continue
            rng = random.Random(f"{seed}:C12:e:{n}:{pairs}")
            yield {"family": "exhaustive-structure", "n": n, "pairs": pairs, "history": _rand_history(rng, 4)}
    nrand = 2000 if tier == "quick" else 50000
    maxlen = 4 if tier == "quick" else 8
    for i in range(nrand):
        if not mine():
            continue
        rng = random.Random(f"{seed}:C12:r:{i}")
        ns = rng.randint(1, 6)
        n, pairs = gen2d.random_stems(rng, ns, maxlen=rng.choice([1, 1, 2, 4]), spacer=(0, rng.choice([0, 1, 3])), shape=rng.choice([None, None, "nested", "chain"]))
        yield {"family": "random", "n": n, "pairs": pairs, "history": _rand_history(rng, rng.randint(2, maxlen))}


def _rand_history(rng, length):
    h = []
    pool = 1
    for _ in range(length):
        op = rng.choice(OPS + ["without_isolated", "without_pseudoknots"])
        target = rng.randrange(pool)
        h.append([target, op])
        if op.startswith("without"):
            pool += 1
    return h


def run_case(case, rec):
    from rnapolis import common

    n, pairs = case["n"], [tuple(p) for p in case["pairs"]]
    hist = case["history"]
    rec.mark_nontrivial(len(pairs) > 0 and len(hist) >= 2)
    # a homologous molecule (same length and pairing, other letters) queried first in the same process: whatever
    # the process remembers about it must not leak into the answers for this structure
    if int(core.chash(case)[:2], 16) % 2 == 0 and n > 0:
        sib = mon2d.make_bpseq(n, pairs, "".join("UCAG"[(3 * i + n) % 4] for i in range(n)))
        try:
            sib.dot_bracket, sib.fcfs, sib.without_pseudoknots(), sib.without_isolated()
            if len(pairs) <= 6:
                sib.all_dot_brackets
        except Exception:
            pass
    root = mon2d.make_bpseq(n, pairs)
    pool = [root]
    created = [_state(root)]
    det = lambda step, extra: {"n": n, "pairs": pairs, "history": hist, "step": step, "info": extra}
    for step, (target, op) in enumerate(hist):
        if target >= len(pool):
            target = len(pool) - 1
        obj = pool[target]
        text0 = created[target][0]
        fresh = common.BpSeq.from_string(text0)
        try:
            want, _ = _apply(fresh, op, text0)
        except Exception as e:
            rec.undecided("history.answer-equals-fresh", f"fresh object raised {type(e).__name__} on {op}")
            return
        try:
            got, derived = _apply(obj, op, text0)
        except Exception as e:
            rec.violation("history.no-crash", det(step, {"op": op, "exception": repr(e)[:200]}), mechanism=f"crash:{type(e).__name__}:{op}")
            return
        culprit = _first_mutator(hist[:step], op)
        rec.check(
            "history.answer-equals-fresh",
            got == want,
            lambda: det(step, {"op": op, "got": str(got)[:300], "fresh": str(want)[:300]}),
            mechanism=culprit,
        )
        # reference definitions of the two derivations (on the fresh object's data)
        if op in ("without_pseudoknots", "without_isolated"):
            f = mon2d.facts([(i, c, j) for i, c, j in created[target][2]])
            if f is not None:
                wantpairs = _ref_derivation(f, op, fresh)
                if wantpairs is not None:
                    ans_pairs = _pairs_of_text(want)
                    # every line of the derived BPSEQ counts: both partners of a pair must name each other
                    ans_map = _pairmap_of_text(want)
                    want_map = {}
                    for i, j in wantpairs:
                        want_map[i], want_map[j] = j, i
                    rec.check(f"{op}.exact", ans_pairs == wantpairs and ans_map == want_map,
                              lambda: det(step, {"op": op, "got": sorted(ans_map.items()), "want": sorted(want_map.items())}))
                    seq_ok = [l.split()[1] for l in want.splitlines()] == list(f["seq"]) if want else f["n"] == 0
                    rec.check(f"{op}.sequence-unchanged", seq_ok, lambda: det(step, {"op": op}))
        if derived is not None and derived is not obj:
            pool.append(derived)
            created.append(_state(derived))
        elif derived is not None:
            pool.append(derived)  # same object returned (no-op case): alias in the pool
            created.append(created[target])
        # invariants on every pool object
        for k, o in enumerate(pool):
            now = _state(o)
            if now != created[k]:
                rec.violation(
                    "history.objects-unchanged",
                    det(step, {"object": k, "op": op, "text-at-creation": created[k][0][:200], "text-now": now[0][:200],
                               "pairs-dict-stale": now[1] != sorted((i, j) for i, _, j in now[2] if j)}),
                    mechanism=_mutation_mechanism(op),
                )
                return
        rec.ok("history.objects-unchanged")


def _mutation_mechanism(op):
    return f"receiver-mutated-by:{op}"


def _first_mutator(prefix, op):
    return None


def _pairs_of_text(text):
    out = set()
    for line in text.splitlines():
        i, _, j = line.split()
        i, j = int(i), int(j)
        if j and i < j:
            out.add((i, j))
    return out


def _pairmap_of_text(text):
    out = {}
    for line in text.splitlines():
        i, _, j = line.split()
        if int(j):
            out[int(i)] = int(j)
    return out


def _ref_derivation(f, op, fresh):
    if op == "without_isolated":
        return {p for s in f["stems"] if len(s) >= 2 for p in s}
    # round-bracket pairs of the structure's own dot-bracket: read from a
    # separate fresh object so nothing is computed on the judged one
    from rnapolis import common

    try:
        st = common.BpSeq.from_string(str(fresh)).dot_bracket.structure
    except Exception:
        return None
    dec, _ = o2d.decode(st)
    if dec is None:
        return None
    return {p for p, l in dec.items() if l == 0}


def classify(v):
    return v.get("mechanism")
