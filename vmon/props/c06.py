"""C06 - 3D-to-2D mapping gives a valid matching and faithful text for any pair list."""
import os
import random

import numpy as np

from vmon import core, gen3d, mon2d
from vmon.oracles import g3d, o2d

ID = "C06"
LEVEL = "exploration"
RULE = (
    "cases: (corpus structure, pair list, gap detection on/off) with pair lists = the structure's own annotation and random lists "
    "over nucleotide residues containing exact duplicates, reversed duplicates (class reversed), multiplets of degree 2-5 on one "
    "class, conflicting canonical pairs, dangling entries naming absent residues, Saenger classes present (frozen-table function of "
    "letters and class) or absent; incl. structures whose chain order differs from file order (4WTI, 4gqj) and thinned structures "
    "(gaps). Mapping2D3D.bpseq/dot_bracket/extended_dot_bracket/all_dot_brackets/strands_sequences are monitored against an "
    "independent numbering / canonical-conflict / row decoder. Non-trivial = list has >=1 resolvable pair between nucleotides; "
    "distinct = canonical JSON hash of the case descriptor."
)
ASSUMPTIONS = [
    "Residue3D.is_nucleotide is trusted as the definition of 'nucleotide'",
    "canonical = Saenger XIX/XX/XXVIII when a Saenger class is given, else cWW on AU/AT/CG/GU",
    "an LW class is relative to the order of its two residues; wanted and decoded triples are normalised to (lower BPSEQ index first)",
    "gap = consecutive nucleotides of one chain with O3'-P distance >= 2.4 A (or atoms missing); |d-2.4|<1e-6 undecided",
]
REQUIRED_MONITORS = ["Mapping2D3D.bpseq", "Mapping2D3D.dot_bracket", "Mapping2D3D.extended_dot_bracket", "Mapping2D3D.strands_sequences", "Mapping2D3D.all_dot_brackets"]
REQUIRED_CLAUSES = ["bpseq.numbering-and-letters", "bpseq.symmetric-matching", "bpseq.pairs-are-canonical-input", "bpseq.keeps-unconflicted-canonical",
                    "text.concatenates-to-bpseq", "extended.rows-balanced-full-length", "extended.every-pair-exactly-once", "all.members-encode-bpseq"]
LANDMARKS = {
    "reverse-added": ("Mapping2D3D.base_pairs", "result.append(bp.reverse)"),
    "conflict-removed": ("Mapping2D3D._generated_bpseq_data", "canonical.remove(pairs[-1])"),
    "gap-placeholder": ("Mapping2D3D.__generate_bpseq", 'result[i] = [i, "?", 0]'),
    "dangling-skipped": ("Mapping2D3D.__generate_bpseq", "continue"),
}
_cur = {}
LWS = [c + a + b for c in "ct" for a in "WHS" for b in "WHS"]


def rev(lw):
    return lw[0] + lw[2] + lw[1]


# ---------------------------------------------------------------------------
# independent model of the mapping
# ---------------------------------------------------------------------------
class Model:
    def __init__(self, mapping):
        s = mapping.structure3d
        self.find_gaps = bool(mapping.find_gaps)
        self.undecided_gap = False
        self.res = list(s.residues)
        self.nts = [r for r in self.res if r.is_nucleotide]
        self.seq = []
        self.index = {}  # id(residue) -> 1-based bpseq index
        self.chains = []  # strand tiling: (chain, start, length)
        prev = None
        for r in self.nts:
            if prev is not None and prev.chain == r.chain and self.find_gaps:
                conn, m = self._connected(prev, r)
                if m < 1e-6:
                    self.undecided_gap = True
                if not conn:
                    self.seq += ["?"] * max(0, r.number - prev.number - 1)
            self.seq.append(r.one_letter_name)
            self.index[id(r)] = len(self.seq)
            prev = r
        # strands: split on chain change only
        self.strands = []
        prev = None
        for i, r in enumerate(self.nts):
            if prev is None or r.chain != prev.chain:
                self.strands.append([r.chain, self.index[id(r)], None])
            prev = r
        for k, st in enumerate(self.strands):
            end = self.strands[k + 1][1] - 1 if k + 1 < len(self.strands) else len(self.seq)
            st[2] = end
        # identity resolution (label first, then auth; later residues overwrite)
        self.by_label, self.by_auth = {}, {}
        for r in self.res:
            if r.label is not None:
                self.by_label[(r.label.chain, r.label.number, r.label.name)] = r
            if r.auth is not None:
                self.by_auth[(r.auth.chain, r.auth.number, r.auth.icode, r.auth.name)] = r
        # entries
        self.entries = []
        for bp in mapping.base_pairs2d:
            a, b = self._resolve(bp.nt1), self._resolve(bp.nt2)
            lw = bp.lw.value
            sa = bp.saenger.value if bp.saenger is not None else None
            self.entries.append((a, b, lw, sa))

    @staticmethod
    def _connected(a, b):
        o3 = next((x for x in a.atoms if x.name == "O3'"), None)
        p = next((x for x in b.atoms if x.name == "P"), None)
        if o3 is None or p is None:
            return False, np.inf
        d = float(np.linalg.norm(np.array([o3.x - p.x, o3.y - p.y, o3.z - p.z])))
        return d < 2.4, abs(d - 2.4)

    def _resolve(self, r2d):
        if r2d.label is not None:
            k = (r2d.label.chain, r2d.label.number, r2d.label.name)
            if k in self.by_label:
                return self.by_label[k]
        if r2d.auth is not None:
            k = (r2d.auth.chain, r2d.auth.number, r2d.auth.icode, r2d.auth.name)
            if k in self.by_auth:
                return self.by_auth[k]
        return None

    @staticmethod
    def _canonical(a, b, lw, sa):
        if sa is not None:
            return sa in ("XIX", "XX", "XXVIII")
        nts = "".join(sorted([a.one_letter_name.upper(), b.one_letter_name.upper()]))
        return lw == "cWW" and nts in ("AU", "AT", "CG", "GU")

    def canonical_pairs(self):
        """set of frozenset({idx_a, idx_b}) for canonical resolvable entries between numbered nucleotides."""
        out = set()
        for a, b, lw, sa in self.entries:
            if a is None or b is None or a is b:
                continue
            if self._canonical(a, b, lw, sa):
                ia, ib = self.index.get(id(a)), self.index.get(id(b))
                if ia is not None and ib is not None and ia != ib:
                    out.add(frozenset((ia, ib)))
        return out

    def canonical_any(self):
        """canonical entries incl. those touching non-nucleotides (they still take part in conflicts)."""
        out = set()
        for a, b, lw, sa in self.entries:
            if a is None or b is None or a is b:
                continue
            if self._canonical(a, b, lw, sa):
                out.add(frozenset((id(a), id(b))))
        return out

    def wanted_triples(self):
        """Distinct (i, j, class) with i<j by BPSEQ index, class relative to (i, j)."""
        out = set()
        unencodable = 0
        for a, b, lw, sa in self.entries:
            if a is None or b is None or a is b:
                continue
            ia, ib = self.index.get(id(a)), self.index.get(id(b))
            if ia is None or ib is None:
                unencodable += 1
                continue
            if ia < ib:
                out.add((ia, ib, lw))
            else:
                out.add((ib, ia, rev(lw)))
        return out, unencodable


# ---------------------------------------------------------------------------
def _bp_snapshot(b):
    return [(e.index_, e.sequence, e.pair) for e in b.entries]


def _post_bpseq(snap, result, exc, args, kwargs):
    rec = _cur["rec"]
    m = args[0]
    ctx = _cur.get("ctx")
    if exc is not None:
        rec.violation("bpseq.no-crash", {"exception": repr(exc)[:300], "ctx": ctx}, mechanism=f"crash:{type(exc).__name__}")
        return
    mod = Model(m)
    ent = _bp_snapshot(result)
    det = lambda extra=None: {"ctx": ctx, "info": extra, "entries": ent[:30]}
    if mod.undecided_gap:
        rec.undecided("bpseq.numbering-and-letters", "gap-margin")
    else:
        ok = [e[0] for e in ent] == list(range(1, len(mod.seq) + 1)) and [e[1] for e in ent] == mod.seq
        rec.check("bpseq.numbering-and-letters", ok, lambda: det({"want-seq": "".join(mod.seq)[:200], "got-seq": "".join(e[1] for e in ent)[:200]}))
        if not ok:
            return
    valid, pairs = mon2d.domain(ent)
    if not rec.check("bpseq.symmetric-matching", valid, det):
        return
    got = {frozenset(p) for p in pairs}
    canon = mod.canonical_pairs()
    rec.check("bpseq.pairs-are-canonical-input", got <= canon, lambda: det({"not-canonical-input": sorted(map(sorted, got - canon))[:6]}))
    # conflicts are decided among all canonical entries (also those touching non-nucleotides)
    allc = mod.canonical_any()
    deg = {}
    for pr in allc:
        for x in pr:
            deg[x] = deg.get(x, 0) + 1
    idx2id = {v: k for k, v in mod.index.items()}
    must = {pr for pr in canon if all(deg.get(idx2id[i], 0) == 1 for i in pr)}
    rec.check("bpseq.keeps-unconflicted-canonical", must <= got, lambda: det({"missing": sorted(map(sorted, must - got))[:6]}))
    qm = [e for e in ent if e[1] == "?" and e[2] != 0]
    rec.check("bpseq.placeholders-unpaired", not qm, det)
    _cur["last_bpseq"] = (ent, pairs, mod)


def _strand_blocks(text, header_prefix):
    """Split per-strand text into blocks [(chain, [lines...])]."""
    blocks = []
    for line in text.split("\n"):
        if line.startswith(header_prefix):
            blocks.append([line[len(header_prefix):], []])
        elif blocks:
            blocks[-1][1].append(line)
    return blocks


def _post_dot_bracket(snap, result, exc, args, kwargs):
    rec = _cur["rec"]
    ctx = _cur.get("ctx")
    m = args[0]
    if exc is not None:
        rec.violation("text.no-crash", {"exception": repr(exc)[:300], "ctx": ctx}, mechanism=f"crash:{type(exc).__name__}")
        return
    b = m.__dict__.get("bpseq")
    if b is None:
        rec.undecided("text.concatenates-to-bpseq", "bpseq not cached")
        return
    _judge_strand_text(rec, "text.concatenates-to-bpseq", result, b, m, ctx)


def _judge_strand_text(rec, clause, text, b, m, ctx):
    ent = _bp_snapshot(b)
    valid, pairs = mon2d.domain(ent)
    if not valid:
        rec.skip(clause, "bpseq invalid (judged elsewhere)")
        return
    blocks = _strand_blocks(text, ">strand_")
    det = lambda extra=None: {"ctx": ctx, "info": extra, "text": text[:600]}
    if not rec.check(clause + ".shape", all(len(bl[1]) == 2 for bl in blocks) and (bool(blocks) or not ent), det):
        return
    seq = "".join(bl[1][0] for bl in blocks)
    st = "".join(bl[1][1] for bl in blocks)
    dec, why = o2d.decode(st)
    ok = seq == "".join(e[1] for e in ent) and dec is not None and set(dec) == set(pairs) and all(len(bl[1][0]) == len(bl[1][1]) for bl in blocks)
    rec.check(clause, ok, lambda: det({"why": why, "bpseq-pairs": pairs[:10]}))
    mod = Model(m)
    want_chains = [s[0] for s in mod.strands]
    want_lens = [s[2] - s[1] + 1 for s in mod.strands]
    if not mod.undecided_gap:
        rec.check("text.strands-split-on-chain-change", [bl[0] for bl in blocks] == want_chains and [len(bl[1][0]) for bl in blocks] == want_lens,
                  lambda: det({"want": list(zip(want_chains, want_lens))}))


def _post_all(snap, result, exc, args, kwargs):
    rec = _cur["rec"]
    ctx = _cur.get("ctx")
    m = args[0]
    if exc is not None:
        rec.violation("all.no-crash", {"exception": repr(exc)[:300], "ctx": ctx}, mechanism=f"crash:{type(exc).__name__}")
        return
    b = m.__dict__.get("bpseq")
    if b is None:
        return
    rec.check("all.non-empty-no-repeats", len(result) >= 1 and len(set(result)) == len(result), {"ctx": ctx})
    for text in result:
        _judge_strand_text(rec, "all.members-encode-bpseq", text, b, m, ctx)


def _post_strands(snap, result, exc, args, kwargs):
    rec = _cur["rec"]
    ctx = _cur.get("ctx")
    m = args[0]
    if exc is not None:
        rec.violation("strands.no-crash", {"exception": repr(exc)[:300], "ctx": ctx}, mechanism=f"crash:{type(exc).__name__}")
        return
    mod = Model(m)
    if mod.undecided_gap:
        rec.undecided("strands.sequences", "gap-margin")
        return
    want = [(s[0], "".join(mod.seq[s[1] - 1 : s[2]])) for s in mod.strands]
    rec.check("strands.sequences", list(result) == want, lambda: {"ctx": ctx, "got": list(result)[:6], "want": want[:6]})


def _post_extended(snap, result, exc, args, kwargs):
    rec = _cur["rec"]
    ctx = _cur.get("ctx")
    m = args[0]
    if exc is not None:
        rec.violation("extended.no-crash", {"exception": repr(exc)[:300], "ctx": ctx}, mechanism=f"crash:{type(exc).__name__}")
        return
    mod = Model(m)
    if mod.undecided_gap:
        rec.undecided("extended.every-pair-exactly-once", "gap-margin")
        return
    n = len(mod.seq)
    blocks = _strand_blocks(result, "    >strand_")
    det = lambda extra=None: {"ctx": ctx, "info": extra, "text": result[:900]}
    if not blocks:
        rec.check("extended.every-pair-exactly-once", not mod.wanted_triples()[0], det)
        return
    # each block: "seq XXX" then rows "lw dbn"; the k-th row of every block belongs together
    nrows = {len(bl[1]) for bl in blocks}
    if not rec.check("extended.block-shape", len(nrows) == 1 and all(bl[1] and bl[1][0].startswith("seq ") for bl in blocks), det):
        return
    seq = "".join(bl[1][0][4:] for bl in blocks)
    rec.check("extended.sequence", seq == "".join(mod.seq), det)
    rows = []
    bad = None
    for k in range(1, nrows.pop()):
        labels = {bl[1][k].split(" ", 1)[0] for bl in blocks}
        if len(labels) != 1:
            bad = f"row {k} has mixed class labels {labels}"
            break
        lw = labels.pop()
        st = "".join(bl[1][k].split(" ", 1)[1] if " " in bl[1][k] else "" for bl in blocks)
        rows.append((lw, st))
    if not rec.check("extended.rows-consistent", bad is None, lambda: det(bad)):
        return
    got = []
    unb = None
    for lw, st in rows:
        dec, why = o2d.decode(st)
        if dec is None or len(st) != n or lw not in LWS:
            unb = (lw, st, why if dec is None else "length/class")
            break
        for (i, j) in dec:
            got.append((i, j, lw))
    if not rec.check("extended.rows-balanced-full-length", unb is None, lambda: det({"bad-row": unb})):
        return
    want, unenc = mod.wanted_triples()
    gs = set(got)
    missing = want - gs
    extra = gs - want
    dup = len(got) != len(gs)
    mech = None
    if missing or extra or dup:
        mech = _classify_extended(mod, want, missing, extra, dup)
    rec.check("extended.every-pair-exactly-once", not missing and not extra and not dup,
              lambda: det({"missing": sorted(missing)[:6], "invented": sorted(extra)[:6], "repeated": dup, "wanted": len(want)}), mechanism=mech)


def _classify_extended(mod, want, missing, extra, dup):
    """Mechanism signatures for the two defects known on the pinned tree."""
    if dup:
        return None
    # (a) reversed class: every invented triple is a missing one with the class reversed
    if missing and len(missing) == len(extra) and {(i, j, rev(c)) for i, j, c in missing} == extra:
        return "asymmetric-class-filed-reversed"
    # (b) >=3-fold multiplet in one class: every missing pair touches an index having >=3 partners in that class
    if missing and not extra:
        deg = {}
        for i, j, c in want:
            deg[(i, c)] = deg.get((i, c), 0) + 1
            deg[(j, rev(c))] = deg.get((j, rev(c)), 0) + 1
        if all(max(deg.get((i, c), 0), deg.get((j, rev(c)), 0)) >= 3 for i, j, c in missing):
            return "multiplet-of-degree>=3-loses-pairs"
    return None


def setup(rec, reach):
    from rnapolis import tertiary

    _cur["rec"] = rec
    M = tertiary.Mapping2D3D
    core.wrap(M, "bpseq", rec, post=_post_bpseq, label="Mapping2D3D.bpseq")
    core.wrap(M, "dot_bracket", rec, post=_post_dot_bracket, label="Mapping2D3D.dot_bracket")
    core.wrap(M, "extended_dot_bracket", rec, post=_post_extended, label="Mapping2D3D.extended_dot_bracket")
    core.wrap(M, "all_dot_brackets", rec, post=_post_all, label="Mapping2D3D.all_dot_brackets")
    core.wrap(M, "strands_sequences", rec, post=_post_strands, label="Mapping2D3D.strands_sequences")
    for name in ("base_pairs", "_generated_bpseq_data", "_Mapping2D3D__generate_bpseq", "strands_sequences", "extended_dot_bracket", "dot_bracket", "all_dot_brackets", "_Mapping2D3D__generate_dot_bracket_per_strand"):
        if name in M.__dict__:  # private helpers may be refactored away: the reach map then simply has no entry for them
            reach.add(M.__dict__[name], f"Mapping2D3D.{name.replace('_Mapping2D3D', '')}")


STRUCTS = ["tests/1A1T_1_B.cif", "tests/1E7K_1_C.cif", "tests/4WTI_1_T-P.cif", "tests/4gqj-assembly1.cif", "tests/1ehz-assembly-1.cif", "tests/1DFU_1_M-N.cif",
           "tests/184D.cif", "tests/1HMH_1_E.cif", "tests/6INQ.cif", "tests/4qln.pdb", "tests/1JJP.cif", "tests/488d.pdb", "tests/1ATO.pdb", "tests/1a9n.cif"]


def cases(shard, nshards, seed, tier):
    k = 0

    def mine():
        nonlocal k
        k += 1
        return (k - 1) % nshards == shard

    for fn in gen3d.corpus_files():
        for gaps in (False, True):
            if mine():
                yield {"family": "own-annotation", "file": fn, "gaps": gaps, "ops": []}
    for fn in STRUCTS[:8]:
        for t in range(2 if tier == "quick" else 10):
            if mine():
                yield {"family": "own-annotation-thinned", "file": fn, "gaps": True, "ops": [{"op": "thin-res", "seed": f"{seed}:{fn}:{t}", "frac": 0.15}]}
            # numbering jumps whose flanking residues lack the O3' / P atoms (unmodelled 5' phosphate)
            if mine():
                yield {"family": "own-annotation-gaps-without-linker-atoms", "file": fn, "gaps": True,
                       "ops": [{"op": "thin-res", "seed": f"{seed}:{fn}:g{t}", "frac": 0.15}, {"op": "thin-atoms", "seed": f"{seed}:{fn}:p{t}", "frac": 0.5, "names": ["P", "O3'", "OP1", "OP2"]}]}
    # residue-order presentations: a chain that is not contiguous (A, B, A), chains out of order, reversed list
    multi = [f for f in gen3d.corpus_files() if f.endswith(("488d.pdb", "4WTI_1_T-P.cif", "1DFU_1_M-N.cif", "4gqj-assembly1.cif", "184D.cif", "1JJP.cif"))]
    for fn in [f for f in gen3d.corpus_files() if f.endswith(("1A1T_1_B.cif", "1E7K_1_C.cif", "4WTI_1_T-P.cif", "1ehz-assembly-1.cif", "488d.pdb"))]:
        for t, runs in enumerate(([20, 26], [8, 12, 16])):
            for gaps in (False, True):
                if mine():
                    yield {"family": "own-annotation-long-icode-runs", "file": fn, "gaps": gaps, "ops": [{"op": "icodes", "seed": f"c06-long-{t}", "frac": 1.0, "runs": runs}]}
    for fn in multi:
        for ops in ([{"op": "split-chain", "tail": 4}], [{"op": "split-chain", "tail": 1}], [{"op": "chain-order", "seed": "c06", "mode": "reverse"}], [{"op": "reverse-res"}]):
            for gaps in (False, True):
                if mine():
                    yield {"family": "own-annotation-" + ops[0]["op"], "file": fn, "gaps": gaps, "ops": ops}
    # the command-line tool against the library on the same file: what it prints (default, -e, -a) and the BPSEQ file
    # it writes must be the library's texts - corpus files as deposited (4qln.cif has nucleotide-like ligands outside the
    # polymer entity) and PDB text of structures whose chains are not contiguous
    for fn, ops in [("tests/4qln.cif", []), ("tests/4qln.pdb", []), ("tests/1ehz-assembly-1.cif", []), ("tests/488d.pdb", []), ("tests/488d.pdb", [{"op": "split-chain", "tail": 4}]),
                    ("tests/4WTI_1_T-P.cif", [{"op": "split-chain", "tail": 2}]), ("tests/1JJP.cif", [{"op": "split-chain", "tail": 3}]), ("tests/1E7K_1_C.cif", [])]:
        for flags in ([], ["-e"], ["-a"], ["-f"], ["-f", "-e"]):
            if mine():
                yield {"family": "cli-vs-library", "file": fn, "ops": ops, "flags": flags}
    # the external-tool route: two different FR3D listings for one structure imported one after the other in this
    # process; each mapping must be the mapping of the pairs its own listing names
    for j, fn in enumerate(STRUCTS):
        if (tier != "quick" or j % 2 == 0) and mine():
            yield {"family": "adapter-two-listings", "file": fn, "ops": [], "gaps": j % 4 == 0}
    # ... with unit ids in their full nine-field form (XXXX|1|A|DG|1||||1_555)
    for fn in ("tests/184D.cif", "tests/1E7K_1_C.cif"):
        if mine():
            yield {"family": "adapter-two-listings", "file": fn, "ops": [], "gaps": False, "nine_fields": True}
    # ... for structures with insertion codes (unit ids with eight fields: 1EHZ|1|A|C|27|||A)
    for fn in ("tests/1ehz-assembly-1.cif", "tests/1E7K_1_C.cif", "tests/4qln.cif"):
        if mine():
            yield {"family": "adapter-two-listings", "file": fn, "ops": [{"op": "icodes", "seed": "c06-adapter", "frac": 0.6}], "gaps": False}
    # a pair list obtained on the mmCIF reading of a table (its residues carry label AND author identifiers) mapped onto
    # the PDB reading of the same table (author identifiers only)
    for fn in ("tests/4qln.cif", "tests/1ehz-assembly-1.cif", "tests/1E7K_1_C.cif", "tests/1DFU_1_M-N.cif"):
        if mine():
            yield {"family": "pairs-from-the-other-reading", "file": fn, "ops": [], "gaps": False}
    # a DSSR document for a structure whose chain names are suffixes of one another (A, BA; B, AB, CAB)
    for chains in (["A", "BA"], ["B", "AB", "CAB"], ["A", "B"]):
        if mine():
            yield {"family": "adapter-dssr-suffix-chains", "file": "tests/1A1T_1_B.cif", "chains": chains, "ops": [], "gaps": False}
    # the last nucleotide of the file is a ligand nucleotide listed under the first chain's name with a much lower number
    # (gap detection must not look back from the first nucleotide to the last)
    for fn in ("tests/1A1T_1_B.cif", "tests/1E7K_1_C.cif", "tests/1ATO.pdb"):
        if mine():
            yield {"family": "own-annotation-trailing-nucleotide-with-lower-number", "file": fn, "gaps": True, "ops": [{"op": "append-nucleotide", "number_below_first": 11}]}
    # size: two crossing stems with 50 / 520 (thorough: 1100) hairpins between them
    for nh in (50, 520) + ((1100,) if tier != "quick" else ()):
        if mine():
            yield {"family": "long-range-knot", "hairpins": nh, "file": "tests/1E7K_1_C.cif", "ops": [], "gaps": False}
    # ... for a structure whose chain identifier is blank (PDB files with an empty column 22): unit ids read 1ATO|1| |G|1
    for fn in ("tests/1ATO.pdb", "tests/1A1T_1_B.cif"):
        if mine():
            yield {"family": "adapter-two-listings", "file": fn, "ops": [], "gaps": False, "blank_chain": True}
    n = 600 if tier == "quick" else 15000
    for i in range(n):
        if mine():
            rng = random.Random(f"{seed}:C06:{i}")
            fn = STRUCTS[i % len(STRUCTS)]
            ops = [] if rng.random() < 0.7 else [{"op": "thin-res", "seed": f"{seed}:C06:t{i}", "frac": rng.uniform(0.05, 0.3)}]
            if ops and rng.random() < 0.4:
                ops.append({"op": "thin-atoms", "seed": f"{seed}:C06:p{i}", "frac": 0.4, "names": ["P", "O3'"]})
            yield {"family": "random-list", "file": fn, "gaps": rng.random() < 0.5, "ops": ops, "i": i}


def random_list(rng, s):
    from rnapolis.common import BasePair, LeontisWesthof, Residue, ResidueAuth, ResidueLabel, Saenger

    nts = [r for r in s.residues if r.is_nucleotide]
    others = [r for r in s.residues if not r.is_nucleotide]
    if len(nts) < 2:
        return []
    with_saenger = rng.random() < 0.5

    def mk(a, b, lw):
        sa = None
        if with_saenger:
            v = g3d.SAENGER.get((a.one_letter_name + b.one_letter_name, lw))
            sa = Saenger[v] if v else None
        return BasePair(ident(a), ident(b), LeontisWesthof[lw], sa)

    idmode = rng.choice(["full", "full", "mixed", "auth-only"])

    def ident(r):
        # external tools name residues by author identity only, the library's own
        # annotation by label + author identity: lists may mix both
        if idmode == "full" or r.auth is None or r.label is None:
            return Residue(r.label, r.auth)
        if idmode == "auth-only":
            return Residue(None, r.auth)
        k = rng.random()
        return Residue(r.label, r.auth) if k < 0.4 else (Residue(None, r.auth) if k < 0.8 else Residue(r.label, None))

    out = []
    npairs = rng.randint(1, 12)
    for _ in range(npairs):
        a, b = rng.sample(nts, 2)
        r = rng.random()
        lw = "cWW" if r < 0.4 else rng.choice(LWS)
        out.append(mk(a, b, lw))
    # canonical-able pairs by letters
    byl = {}
    for r in nts:
        byl.setdefault(r.one_letter_name.upper(), []).append(r)
    for _ in range(rng.randint(0, 5)):
        x, y = rng.choice([("A", "U"), ("G", "C"), ("G", "U"), ("C", "G"), ("U", "A")])
        if byl.get(x) and byl.get(y):
            out.append(mk(rng.choice(byl[x]), rng.choice(byl[y]), "cWW"))
    # multiplet on one class
    if rng.random() < 0.5:
        hub = rng.choice(nts)
        lw = rng.choice(LWS)
        for p in rng.sample(nts, min(len(nts), rng.randint(2, 5))):
            if p is not hub:
                out.append(mk(hub, p, lw) if rng.random() < 0.5 else mk(p, hub, rev(lw)))
    # duplicates: exact and reversed
    for bp in list(out):
        r = rng.random()
        if r < 0.15:
            out.append(bp)
        elif r < 0.3:
            out.append(BasePair(bp.nt2, bp.nt1, bp.lw.reverse, bp.saenger))
    # dangling entries
    for _ in range(rng.randint(0, 2)):
        a = rng.choice(nts)
        ghost = Residue(None, ResidueAuth("Zz", 99999, None, "A"))
        out.append(BasePair(Residue(a.label, a.auth), ghost, LeontisWesthof.cWW, None))
    # pairs touching non-nucleotide residues
    if others and rng.random() < 0.3:
        a, o = rng.choice(nts), rng.choice(others)
        out.append(mk(a, o, rng.choice(LWS)))
    rng.shuffle(out)
    return out


def _cli_vs_library(case, rec):
    import contextlib
    import io
    import shutil
    import sys
    import tempfile

    from rnapolis import annotator, parser
    from rnapolis.util import handle_input_file
    from vmon import emit

    d = tempfile.mkdtemp(prefix="vmon-c06-")
    try:
        if case["ops"]:
            rows = emit.rows_from_structure(gen3d.apply_ops(gen3d.load(case["file"]), case["ops"]))
            if not emit.fits_pdb(rows):
                rec.skip("cli.stdout-equals-library", "outside PDB limits")
                return
            path = os.path.join(d, "input.pdb")
            open(path, "w").write(emit.emit_pdb(rows))
        else:
            path = os.path.join(core.REPO, case["file"])
        flags = case["flags"]
        gaps, alld = "-f" in flags, "-a" in flags
        s = parser.read_3d_structure(handle_input_file(path), None)
        s2d, dbs = annotator.extract_secondary_structure(s, None, gaps, alld)
        if "-e" in flags:
            want = s2d.extendedDotBracket + "\n"
        elif alld:
            want = "".join(x + "\n" for x in dbs)
        else:
            want = s2d.dotBracket + "\n"
        pb = os.path.join(d, "out.bpseq")
        old, buf = sys.argv, io.StringIO()
        sys.argv = ["annotator"] + flags + ["--bpseq", pb, path]
        try:
            with contextlib.redirect_stdout(buf):
                annotator.main()
            err = None
        except BaseException as e:
            err = repr(e)
        finally:
            sys.argv = old
        got = buf.getvalue()
        rec.mark_nontrivial(True)
        det = lambda extra=None: {"file": case["file"], "ops": case["ops"], "flags": flags, "error": err, "info": extra}
        if got != want:
            la, lb = want.splitlines(), got.splitlines()
            k = next((i for i, (x, y) in enumerate(zip(la, lb)) if x != y), min(len(la), len(lb)))
            diff = {"line": k + 1, "library": la[k][:160] if k < len(la) else None, "cli": lb[k][:160] if k < len(lb) else None}
        else:
            diff = None
        rec.check("cli.stdout-equals-library", err is None and diff is None, lambda: det(diff))
        wb = open(pb).read() if os.path.exists(pb) else None
        rec.check("cli.bpseq-file-equals-library", wb is not None and wb.strip() == s2d.bpseq.strip(), lambda: det({"file-lines": None if wb is None else len(wb.splitlines()), "library-lines": len(s2d.bpseq.splitlines())}))
    finally:
        shutil.rmtree(d, ignore_errors=True)


def _adapter_two_listings(case, rec):
    import tempfile

    from rnapolis import adapter, annotator, tertiary

    seed = os.environ.get("VERIF_SEED", "0")
    s = gen3d.load(case["file"])
    if case.get("ops"):
        s = gen3d.apply_ops(s, case["ops"])
    if case.get("blank_chain"):
        from rnapolis.common import ResidueAuth

        s = gen3d.rebuild(s, relabel=lambda ri, r: (None, ResidueAuth(" ", r.auth.number, r.auth.icode, r.auth.name)))
    try:
        bi = annotator.extract_base_interactions(s)
    except Exception as e:
        rec.undecided("adapter.mapping-is-of-its-own-listing", f"annotation raised {type(e).__name__}")
        return
    pairs = [p for p in bi.basePairs if p.nt1.auth is not None and p.nt2.auth is not None]
    if len(pairs) < 4:
        rec.skip("adapter.mapping-is-of-its-own-listing", "fewer than four pairs with author identifiers")
        return
    rng = random.Random(f"{seed}:C06:adapter:{case['file']}")
    first = pairs
    second = [p for p in pairs if rng.random() < 0.5] or pairs[:1]

    def unit(r):
        a = r.auth
        if case.get("nine_fields"):
            # the full form FR3D writes when a symmetry operator is given: atom, alternate id and insertion code empty
            return "|".join(["XXXX", "1", a.chain, a.name, str(a.number), "", "", a.icode or "", "1_555"])
        return "|".join(["XXXX", "1", a.chain, a.name, str(a.number)] + (["", "", a.icode] if a.icode else []))

    rec.mark_nontrivial(True)
    for which, lst in (("first", first), ("second", second), ("first-again", first)):
        fd, path = tempfile.mkstemp(suffix=".txt", prefix="vmon-c06-")
        with os.fdopen(fd, "w") as fh:
            for p in lst:
                fh.write(f"{unit(p.nt1)}\t{p.lw.value}\t{unit(p.nt2)}\t0\n")
        _cur["ctx"] = {"file": case["file"], "route": "adapter", "listing": which, "pairs-listed": len(lst), "gaps": case["gaps"]}
        try:
            s2d, dbs, m = adapter.process_external_tool_output(s, path, adapter.ExternalTool.FR3D, None, case["gaps"], False)
            got = str(m.bpseq)
            want = str(tertiary.Mapping2D3D(s, lst, [], case["gaps"]).bpseq)
        except Exception as e:
            rec.violation("adapter.no-crash", {"ctx": _cur["ctx"], "exception": repr(e)[:300]}, mechanism=f"crash:{type(e).__name__}")
            continue
        finally:
            os.remove(path)
        rec.check("adapter.mapping-is-of-its-own-listing", got == want, lambda: {"ctx": _cur["ctx"], "paired-lines": [sum(1 for l in t.splitlines() if not l.endswith(" 0")) for t in (got, want)]})


def _dssr_suffix_chains(case, rec):
    """Two copies of a hairpin as chains A and BA (one chain name is a suffix of the other), the pairs of both given as a
    DSSR document: the mapping must be the mapping of exactly those pairs."""
    import json
    import tempfile

    from rnapolis import adapter, annotator, tertiary
    from rnapolis.common import ResidueAuth, ResidueLabel

    base = gen3d.load(case["file"], 1)
    res = []
    for c, name in enumerate(case["chains"]):
        off = np.array([0.0, 0.0, 120.0 * c])

        def relabel(ri, r, name=name):
            lab = ResidueLabel(name, r.label.number, r.label.name) if r.label is not None else None
            auth = ResidueAuth(name, r.auth.number, r.auth.icode, r.auth.name) if r.auth is not None else None
            return lab, auth

        res += list(gen3d.rebuild(base, coord_fn=lambda ri, p, off=off: p + off, relabel=relabel).residues)
    s = tertiary.Structure3D(res)
    try:
        pairs = [p for p in annotator.extract_base_interactions(s).basePairs]
    except Exception as e:
        rec.undecided("adapter.mapping-is-of-its-own-listing", f"annotation raised {type(e).__name__}")
        return
    doc = {"pairs": [{"nt1": p.nt1.full_name, "nt2": p.nt2.full_name, "LW": p.lw.value, "index": i + 1} for i, p in enumerate(pairs)]}
    fd, path = tempfile.mkstemp(suffix=".json", prefix="vmon-c06-")
    with os.fdopen(fd, "w") as fh:
        json.dump(doc, fh)
    _cur["ctx"] = {"file": case["file"], "route": "adapter (DSSR document)", "chains": case["chains"], "pairs-listed": len(pairs)}
    rec.mark_nontrivial(bool(pairs))
    try:
        s2d, dbs, m = adapter.process_external_tool_output(s, path, adapter.ExternalTool.DSSR, None, False, False)
        got = str(m.bpseq)
        want = str(tertiary.Mapping2D3D(s, pairs, [], False).bpseq)
    except Exception as e:
        rec.violation("adapter.no-crash", {"ctx": _cur["ctx"], "exception": repr(e)[:300]}, mechanism=f"crash:{type(e).__name__}")
        return
    finally:
        os.remove(path)
    rec.check("adapter.mapping-is-of-its-own-listing", got == want, lambda: {"ctx": _cur["ctx"], "paired-lines": [sum(1 for l in t.splitlines() if not l.endswith(" 0")) for t in (got, want)]})


def _long_range_knot(case, rec):
    """A chain of thousands of nucleotides (copies of real G and C residues) in which two stems that cross each other
    are separated by hundreds of hairpins; the pair list is given the way an external tool would (author ids only)."""
    from rnapolis import tertiary
    from rnapolis.common import BasePair, LeontisWesthof, Residue, ResidueAuth, Saenger

    src = gen3d.load("tests/1E7K_1_C.cif", 1)
    tmpl = {}
    for r in src.residues:
        if r.one_letter_name in "GC" and r.one_letter_name not in tmpl and len(r.atoms) > 15:
            tmpl[r.one_letter_name] = r
    nh = case["hairpins"]
    letters, pairs = [], []

    def stem5(L):
        a = len(letters) + 1
        letters.extend("G" * L)
        return list(range(a, a + L))

    def stem3(L):
        a = len(letters) + 1
        letters.extend("C" * L)
        return list(range(a, a + L))

    x5 = stem5(3)
    for _ in range(nh):
        h5 = stem5(2)
        letters.extend("GGG")
        h3 = stem3(2)
        pairs += list(zip(h5, reversed(h3)))
        letters.append("G")
    y5 = stem5(3)
    x3 = stem3(3)
    y3 = stem3(3)
    pairs += list(zip(x5, reversed(x3))) + list(zip(y5, reversed(y3)))
    residues = []
    for i, l in enumerate(letters, 1):
        t = tmpl[l]
        auth = ResidueAuth("A", i, None, l)
        off = (i * 3.0, 0.0, 0.0)
        atoms = tuple(tertiary.Atom(None, None, auth, 1, a.name, a.x + off[0], a.y, a.z, 1.0) for a in t.atoms)
        residues.append(tertiary.Residue3D(None, auth, 1, l, atoms))
    s = tertiary.Structure3D(residues)
    byn = {i + 1: r for i, r in enumerate(residues)}
    bps = [BasePair(Residue(None, byn[i].auth), Residue(None, byn[j].auth), LeontisWesthof.cWW, Saenger.XIX) for i, j in sorted(pairs)]
    _cur["ctx"] = {"long-range-knot": True, "hairpins-between-the-crossing-stems": nh, "nucleotides": len(residues)}
    m = tertiary.Mapping2D3D(s, bps, [], False)
    _cur["last_bpseq"] = None
    for attr in ("bpseq", "dot_bracket", "extended_dot_bracket"):
        try:
            getattr(m, attr)
        except Exception:
            pass
    rec.mark_nontrivial(True)


def _pairs_from_the_other_reading(case, rec):
    from rnapolis import annotator, tertiary
    from vmon import emit

    clause = "mapping.same-for-pairs-named-by-label-and-author"
    res = emit.format_twins(gen3d.load(case["file"]))
    if res is None:
        rec.skip(clause, "table outside PDB limits")
        return
    s_pdb, s_cif = res
    try:
        p_cif = annotator.extract_base_interactions(s_cif).basePairs
        p_pdb = annotator.extract_base_interactions(s_pdb).basePairs
    except Exception as e:
        rec.undecided(clause, f"annotation raised {type(e).__name__}")
        return
    ak = lambda r: (r.auth.chain, r.auth.number, r.auth.icode, r.auth.name) if r.auth is not None else None
    key = lambda ps: [(ak(p.nt1), ak(p.nt2), p.lw.value) for p in ps]
    if key(p_cif) != key(p_pdb) or any(p.nt1.label is None or p.nt1.auth is None for p in p_cif):
        rec.skip(clause, "the two readings are annotated differently (C05's business)")
        return
    rec.mark_nontrivial(bool(p_cif))
    _cur["ctx"] = {"file": case["file"], "pairs": "annotated on the mmCIF reading (label + author identifiers)", "structure": "PDB reading (author identifiers)"}
    try:
        got = str(tertiary.Mapping2D3D(s_pdb, p_cif, [], False).bpseq)
        want = str(tertiary.Mapping2D3D(s_pdb, p_pdb, [], False).bpseq)
    except Exception as e:
        rec.violation("mapping.no-crash", {"ctx": _cur["ctx"], "exception": repr(e)[:300]}, mechanism=f"crash:{type(e).__name__}")
        return
    rec.check(clause, got == want, lambda: {"ctx": _cur["ctx"], "paired-lines": [sum(1 for l in t.splitlines() if not l.endswith(" 0")) for t in (got, want)]})


def run_case(case, rec):
    if case["family"] == "cli-vs-library":
        return _cli_vs_library(case, rec)
    if case["family"] == "pairs-from-the-other-reading":
        return _pairs_from_the_other_reading(case, rec)
    if case["family"] == "long-range-knot":
        return _long_range_knot(case, rec)
    if case["family"] == "adapter-dssr-suffix-chains":
        return _dssr_suffix_chains(case, rec)
    if case["family"] == "adapter-two-listings":
        return _adapter_two_listings(case, rec)
    from rnapolis import annotator, tertiary

    seed = os.environ.get("VERIF_SEED", "0")
    s = gen3d.load(case["file"])
    if case["ops"]:
        s = gen3d.apply_ops(s, case["ops"])
    if case["family"].startswith("own"):
        try:
            bi = annotator.extract_base_interactions(s)
        except Exception as e:
            rec.undecided("bpseq.numbering-and-letters", f"annotation raised {type(e).__name__}")
            return
        pairs = bi.basePairs
        desc = "own annotation"
    else:
        rng = random.Random(f"{seed}:C06:list:{case['i']}")
        pairs = random_list(rng, s)
        desc = [[p.nt1.full_name, p.nt2.full_name, p.lw.value, p.saenger.value if p.saenger else None] for p in pairs][:40]
    _cur["ctx"] = {"file": case["file"], "ops": case["ops"], "gaps": case["gaps"], "pairs": desc}
    m = tertiary.Mapping2D3D(s, pairs, [], case["gaps"])
    _cur["last_bpseq"] = None
    for attr in ("strands_sequences", "bpseq", "dot_bracket", "extended_dot_bracket"):
        try:
            getattr(m, attr)
        except Exception:
            pass
    last = _cur.get("last_bpseq")
    rec.mark_nontrivial(bool(last and Model(m).wanted_triples()[0]))
    if last:
        f = mon2d.facts(last[0])
        if f is not None and max((len(c) for c in o2d.components(f["g"])), default=0) <= 7:
            try:
                m.all_dot_brackets
            except Exception:
                pass


def classify(v):
    return v.get("mechanism")
