"""C17 - clash detection equals the pairwise van-der-Waals definition."""
import contextlib
import csv
import io
import itertools
import math
import os
import random
import re
import sys
import tempfile

import numpy as np

from vmon import core, emit, gen3d

ID = "C17"
LEVEL = "exploration"
RULE = (
    "cases: (structure, all 32 option combinations) with structures = corpus, isotropically scaled (0.5-1.0) / jittered corpus, and "
    "synthetic close contacts with partial occupancies (0.0, 0.3/0.7, 0.5/0.5, 1.0, null) incl. distances swept +-0.3 A around each "
    "radius sum; clashfinder.find_clashes is monitored against an O(n^2) enumeration; clashfinder.main is run in-process on generated "
    "mmCIF files carrying exptl/refine with stdout and CSV parsed back. Non-trivial = the reference enumeration is non-empty for at "
    "least one option combination; distinct = canonical JSON hash of the case descriptor."
)
ASSUMPTIONS = ["radii C 0.6 / N 0.54 / O 0.53 / P 0.94 and the 0.5 A MolProbity margin are frozen in this module",
               "atom type = first letter of the stripped atom name; null occupancy counts as 1", "Residue3D.is_nucleotide trusted for --nucleic-acid-only"]
REQUIRED_MONITORS = ["clashfinder.find_clashes", "clashfinder.main"]
REQUIRED_CLAUSES = ["clashes.equal-reference", "clashes.each-once", "cli.residue-max", "cli.chain-max", "cli.csv-equals-list", "cli.atom-lines-equal-list"]
LANDMARKS = {
    "autoclash-skip": ("find_clashes", "if ignore_autoclashes is True and ri == rj:"),
    "same-name-skip": ("find_clashes", "if require_same_atom_name is True and ai.name != aj.name:"),
    "distance-skip": ("find_clashes", "if distance > sum_vdw_radii + molprobity_factor:"),
    "csv": ("main", "writer.writerow("),
    "cli-between-chains": ("main", "Clashes found between chains"),
}
RADII = {"C": 0.6, "N": 0.54, "O": 0.53, "P": 0.94}
EPS = 1e-6
_cur = {}


_cand_cache = {}


def candidates(residues):
    """All typed atom pairs within radius sum + 0.5 (+eps), computed once per
    residue list: (key, dist, rsum, same_residue, same_name, occ_sum, both_nucleotides)."""
    # the cache holds the residue objects themselves (so their ids cannot be reused by later objects) and is valid
    # only for the very same objects in the same order
    held = _cand_cache.get("held")
    if held is not None and len(held) == len(residues) and all(a is b for a, b in zip(held, residues)):
        return _cand_cache["v"]
    atoms = []
    for ri, r in enumerate(residues):
        nuc = bool(r.is_nucleotide)
        for ai, a in enumerate(r.atoms):
            n = a.name.strip()
            if n[:1] in RADII:
                atoms.append((ri, ai, a, RADII[n[:1]], nuc))
    out = []
    if len(atoms) >= 2:
        X = np.array([[a.x, a.y, a.z] for _, _, a, _, _ in atoms])
        rad = np.array([t[3] for t in atoms])
        n = len(X)
        B = 1500
        for s in range(0, n, B):
            D = np.sqrt(((X[s : s + B, None, :] - X[None, :, :]) ** 2).sum(-1))
            lim = rad[s : s + B, None] + rad[None, :]
            ii, jj = np.nonzero(D <= lim + 0.5 + EPS)
            keep = (ii + s) < jj
            for a, b in zip((ii + s)[keep], jj[keep]):
                ri, ai, A, _, na = atoms[a]
                rj, aj, Bm, _, nb = atoms[b]
                oa = 1.0 if A.occupancy is None else A.occupancy
                ob = 1.0 if Bm.occupancy is None else Bm.occupancy
                out.append((frozenset(((ri, ai), (rj, aj))), float(D[a - s, b]), float(lim[a - s, b]), ri == rj, A.name == Bm.name, oa + ob, na and nb))
    _cand_cache["held"] = list(residues)
    _cand_cache["v"] = out
    return out


def reference(residues, ignore_occ, ignore_auto, na_only, same_name, molprobity):
    """-> (sure set, fuzzy set) of frozenset({(res idx, atom idx)}) pairs."""
    sure, fuzzy = set(), set()
    extra = 0.5 if molprobity else 0.0
    for key, d, rsum, same_res, same_nm, occ, both_nuc in candidates(residues):
        if d > rsum + extra + EPS:
            continue
        if na_only and not both_nuc:
            continue
        if ignore_auto and same_res:
            continue
        if same_name and not same_nm:
            continue
        if not ignore_occ and not math.isclose(occ, 1.0):
            continue
        if abs(d - (rsum + extra)) < EPS:
            fuzzy.add(key)
        else:
            sure.add(key)
    return sure, fuzzy


def _pre(args, kwargs):
    return list(args[0])


def _post(snap, result, exc, args, kwargs):
    rec = _cur["rec"]
    residues = snap
    opts = tuple(bool(x) for x in args[1:6])
    ctx = _cur.get("ctx")
    if exc is not None:
        rec.violation("clashes.no-crash", {"exception": repr(exc)[:300], "options": opts, "ctx": ctx}, mechanism=f"crash:{type(exc).__name__}")
        return
    index = {}
    for ri, r in enumerate(residues):
        for ai, a in enumerate(r.atoms):
            index.setdefault(id(a), (ri, ai))
    got = []
    misattached = None
    for (r1, a1), (r2, a2), occ in result:
        k1, k2 = index.get(id(a1)), index.get(id(a2))
        got.append(frozenset((k1, k2)))
        # every listed atom is listed with the residue it belongs to
        for rr, aa, kk in ((r1, a1, k1), (r2, a2, k2)):
            if kk is not None and residues[kk[0]] is not rr and not any(x is aa for x in rr.atoms):
                misattached = {"atom": aa.name, "listed-with": str(rr), "belongs-to": str(residues[kk[0]])}
    rec.check("clashes.atoms-listed-with-their-own-residue", misattached is None, lambda: {"options": opts, "ctx": ctx, "info": misattached})
    gs = set(got)
    rec.check("clashes.each-once", len(gs) == len(got), lambda: {"options": opts, "ctx": ctx, "listed": len(got), "distinct": len(gs)})
    sure, fuzzy = reference(residues, *opts)
    missing = sure - gs
    extra = gs - sure - fuzzy
    if fuzzy:
        rec.count("note:threshold-exact-pairs", len(fuzzy))

    def describe(keys):
        out = []
        for key in list(keys)[:4]:
            (ri, ai), (rj, aj) = sorted(key) if len(key) == 2 else (list(key)[0], list(key)[0])
            A, Bm = residues[ri].atoms[ai], residues[rj].atoms[aj]
            d = float(np.linalg.norm(np.array([A.x - Bm.x, A.y - Bm.y, A.z - Bm.z])))
            out.append({"res_i": str(residues[ri]), "atom_i": A.name, "occ_i": A.occupancy, "res_j": str(residues[rj]), "atom_j": Bm.name, "occ_j": Bm.occupancy, "dist": round(d, 6)})
        return out

    mech = None
    if (missing or extra) and not opts[0]:
        # classifier: every discrepancy involves an atom with occupancy exactly 0.0
        allk = list(missing) + list(extra)
        if all(any(residues[ri].atoms[ai].occupancy == 0.0 for ri, ai in key) for key in allk):
            mech = "occupancy-0.0-treated-as-1.0"
    rec.check("clashes.equal-reference", not missing and not extra,
              lambda: {"options": dict(zip(["ignore_occupancy", "ignore_autoclashes", "nucleic_acid_only", "require_same_atom_name", "molprobity"], opts)),
                       "missing": describe(missing), "extra": describe(extra), "ctx": ctx}, mechanism=mech)
    _cur["last"] = (sure | fuzzy, len(got))


def setup(rec, reach):
    from rnapolis import clashfinder

    _cur["rec"] = rec
    core.wrap(clashfinder, "find_clashes", rec, post=_post, pre=_pre, label="clashfinder.find_clashes")
    core.wrap(clashfinder, "main", rec, label="clashfinder.main")
    reach.add(clashfinder.find_clashes, "find_clashes")
    reach.add(clashfinder.main, "main")


def cases(shard, nshards, seed, tier):
    k = 0

    def mine():
        nonlocal k
        k += 1
        return (k - 1) % nshards == shard

    files = gen3d.corpus_files()
    small = [f for f in files if os.path.getsize(os.path.join(core.REPO, f)) < 250_000]
    for fn in (small if tier == "quick" else files):
        if mine():
            yield {"family": "corpus", "file": fn, "ops": []}
    nvar = 30 if tier == "quick" else 600
    for i in range(nvar):
        if not mine():
            continue
        rng = random.Random(f"{seed}:C17:v:{i}")
        fn = rng.choice(small)
        kind = rng.choice(["scale", "scale", "jitter", "occ", "order"])
        if kind == "order":
            # residues listed 3'->5' / chains in another order: list order is not ascending (chain, number) order
            ops = [{"op": "scale", "f": rng.uniform(0.72, 0.9)}, rng.choice([{"op": "reverse-res"}, {"op": "chain-order", "seed": f"{seed}:{i}", "mode": "reverse"}])]
        elif kind == "scale":
            ops = [{"op": "scale", "f": rng.uniform(0.72, 1.0)}]
        elif kind == "jitter":
            ops = [{"op": "jitter", "seed": f"{seed}:{i}", "sigma": rng.choice([0.2, 0.5])}, {"op": "scale", "f": rng.uniform(0.8, 1.0)}]
        else:
            ops = [{"op": "scale", "f": rng.uniform(0.72, 0.95)}, {"op": "occupancy", "seed": f"{seed}:{i}"}]
        yield {"family": "perturbed-" + kind, "file": fn, "ops": ops}
    nsyn = 40 if tier == "quick" else 1200
    for i in range(nsyn):
        if mine():
            yield {"family": "synthetic-contacts", "i": i}
    for i in range(4 if tier == "quick" else 40):
        if mine():
            yield {"family": "crowded", "i": i}
    # one residue only (its own atoms clash once the structure is scaled down), and one nucleotide among amino acids
    for j, fn in enumerate(small[:6] if tier == "quick" else small):
        if mine():
            yield {"family": "single-residue", "file": fn, "ops": [{"op": "first-n", "n": 1}, {"op": "scale", "f": 0.75}]}
    ncli = 12 if tier == "quick" else 150
    for i in range(ncli):
        if mine():
            yield {"family": "cli", "i": i}
    for j, fn in enumerate(("tests/1A1T_1_B.cif", "tests/1ATO.pdb", "tests/1E7K_1_C.cif", "tests/4WTI_1_T-P.cif")):
        if (tier != "quick" or j < 2) and mine():
            yield {"family": "converted-mmcif-with-insertion-codes", "file": fn, "i": j}
    # the tool on deposited files as they are: entity tables, nucleotide-like ligands outside the polymer entities,
    # protein chains and water, with the nucleic-acid-only restriction among the options
    other = ["--ignore-occupancy", "--ignore-autoclashes", "--require-same-atom-name", "--enable-molprobity-mode"]
    combos = [["--nucleic-acid-only", "--enable-molprobity-mode", "--ignore-occupancy"], ["--nucleic-acid-only"]]
    if tier != "quick":
        combos = [["--nucleic-acid-only"] * n + [f for f, b in zip(other, bits) if b] for n in (1, 0) for bits in itertools.product([False, True], repeat=4)]
    for fn in ["tests/4qln.cif", "tests/8btk_B7.cif"] + ([] if tier == "quick" else ["tests/4qln.pdb", "tests/1ehz-assembly-1.cif"]):
        for j, flags in enumerate(combos):
            if mine():
                yield {"family": "cli-deposited-file", "i": j, "file": fn, "flags": flags}


def with_occupancy(structure, seed):
    from rnapolis import tertiary

    rng = random.Random(seed)
    residues = []
    for r in structure.residues:
        atoms = tuple(tertiary.Atom(a.entity_id, a.label, a.auth, a.model, a.name, a.x, a.y, a.z, rng.choice([1.0, 1.0, 0.5, 0.3, 0.7, 0.0, None])) for a in r.atoms)
        residues.append(tertiary.Residue3D(r.label, r.auth, r.model, r.one_letter_name, atoms))
    return tertiary.Structure3D(residues)


def synthetic(seed, i):
    """Two or three small residues with atom pairs placed around the radius
    sums, partial occupancies, same and different atom names."""
    from rnapolis import tertiary
    from rnapolis.common import ResidueAuth

    rng = random.Random(f"{seed}:C17:s:{i}")
    names = ["P", "OP1", "OP2", "O5'", "C5'", "C4'", "N1", "N3", "C2", "O2'", "C1'", "O4'", "H1", "S1", "MG", "CA", "N9", "O6"]
    residues = []
    base = [np.array([rng.uniform(0, 4), rng.uniform(0, 4), rng.uniform(0, 4)]) for _ in range(6)]
    nres = rng.randint(2, 4)
    for r in range(nres):
        auth = ResidueAuth(rng.choice(["A", "A", "B"]), r + 1, rng.choice([None, None, "A"]), rng.choice(["A", "G", "C", "U", "HOH"]))
        if residues and rng.random() < 0.3:
            # micro-heterogeneity: another residue (other name) on the chain, number and insertion code of the previous one
            p = residues[-1].auth
            auth = ResidueAuth(p.chain, p.number, p.icode, rng.choice([x for x in ["A", "G", "C", "U", "PSU"] if x != p.name]))
        atoms = []
        for k in range(rng.randint(2, 6)):
            nm = rng.choice(names)
            if any(a.name == nm for a in atoms):
                continue
            if rng.random() < 0.6 and residues:
                # place next to an existing atom at a distance around the radius sum
                other = rng.choice(rng.choice(residues).atoms)
                t1, t2 = nm.strip()[:1], other.name.strip()[:1]
                rs = RADII.get(t1, 0.6) + RADII.get(t2, 0.6) + rng.choice([0.0, 0.0, 0.5])
                d = rs + rng.choice([-0.3, -0.05, -1e-3, 1e-3, 0.05, 0.3, 0.0])
                v = np.array([rng.gauss(0, 1) for _ in range(3)])
                v = v / np.linalg.norm(v) * max(d, 0.05)
                p = np.array([other.x, other.y, other.z]) + v
                if rng.random() < 0.12:
                    p = np.array([other.x, other.y, other.z])  # superposed atoms: distance exactly 0
            else:
                p = rng.choice(base) + np.array([rng.uniform(-1, 1) for _ in range(3)])
            occ = rng.choice([1.0, 1.0, 0.5, 0.5, 0.3, 0.7, 0.0, None, 0.25])
            atoms.append(tertiary.Atom(None, None, auth, 1, nm, float(p[0]), float(p[1]), float(p[2]), occ))
        if atoms:
            residues.append(tertiary.Residue3D(None, auth, 1, auth.name[-1] if auth.name != "HOH" else "?", tuple(atoms)))
    return tertiary.Structure3D(residues)


def crowded(seed, i):
    """Many nearly superposed copies of one nucleotide (alternate conformers / merged models
    stored as chains of one model): some atoms have far more than 32 neighbours in range."""
    from rnapolis import tertiary
    from rnapolis.common import ResidueAuth

    rng = random.Random(f"{seed}:C17:crowded:{i}")
    src = gen3d.load(rng.choice(["tests/1A1T_1_B.cif", "tests/1E7K_1_C.cif", "tests/184D.cif"]), 1)
    nts = [r for r in src.residues if len(r.atoms) > 15]
    base = rng.choice(nts)
    ncopies = rng.randint(12, 18)
    residues = []
    for c in range(ncopies):
        auth = ResidueAuth("ABCDEFGHIJKLMNOPQRST"[c], 1, None, base.name)
        d = [rng.gauss(0, 0.08) for _ in range(3)]
        atoms = tuple(tertiary.Atom(None, None, auth, 1, a.name, a.x + d[0] + rng.gauss(0, 0.02), a.y + d[1], a.z + d[2], rng.choice([1.0, 0.5, 0.5, None])) for a in base.atoms)
        residues.append(tertiary.Residue3D(None, auth, 1, base.one_letter_name, atoms))
    return tertiary.Structure3D(residues)


def shifted_copies(seed, i, ncopies):
    """Copies of one nucleotide translated by about 1 A each and stored as chains A, B, ..."""
    from rnapolis import tertiary
    from rnapolis.common import ResidueAuth

    rng = random.Random(f"{seed}:C17:shifted:{i}")
    src = gen3d.load(rng.choice(["tests/1A1T_1_B.cif", "tests/1E7K_1_C.cif", "tests/184D.cif"]), 1)
    base = rng.choice([r for r in src.residues if len(r.atoms) > 15])
    v = np.array([rng.gauss(0, 1) for _ in range(3)])
    v /= np.linalg.norm(v)
    residues = []
    for c in range(ncopies):
        # chains in DEscending order on odd cases: the file order of two clashing residues is then the reverse
        # of their sorted order
        auth = ResidueAuth(("DCBA" if i % 2 else "ABCD")[c], 7, None, base.name)
        d = v * c * rng.uniform(0.9, 1.4)
        atoms = tuple(tertiary.Atom(None, None, auth, 1, a.name, a.x + d[0], a.y + d[1], a.z + d[2], 1.0) for a in base.atoms)
        residues.append(tertiary.Residue3D(None, auth, 1, base.one_letter_name, atoms))
    return tertiary.Structure3D(residues)


def run_all_options(rec, structure):
    from rnapolis import clashfinder

    any_nonempty = False
    for opts in itertools.product([False, True], repeat=5):
        _cur["last"] = None
        try:
            clashfinder.find_clashes(structure.residues, *opts)
        except Exception:
            continue
        if _cur["last"] and _cur["last"][0]:
            any_nonempty = True
    return any_nonempty


LINE_CHAIN1 = re.compile(r"^Clashes found in chain (.*) with maximum occupancy sum equal to (.*)$")
LINE_CHAIN2 = re.compile(r"^Clashes found between chains (.*) and (.*) with maximum occupancy sum equal to (.*)$")
LINE_RES1 = re.compile(r"^    Clashes found in residue (.*) with maximum occupancy sum equal to (.*)$")
LINE_RES2 = re.compile(r"^    Clashes found between residues (.*) and (.*) with maximum occupancy sum equal to (.*)$")
LINE_ATOM = re.compile(r"^        Clashes found between atoms (.*) and (.*) with occupancy sum of (.*)$")


def run_cli(rec, seed, i, raw=None):
    from rnapolis import clashfinder, parser

    rng = random.Random(f"{seed}:C17:cli:{i}")
    if raw is not None:
        # a deposited file as it is (entity tables, ligands, water, protein chains), options given by the case
        fn, flags = raw["file"], list(raw["flags"])
        text = open(os.path.join(core.REPO, fn)).read()
        rec.count("note:cli-metadata-as-deposited")
        return _run_cli_text(rec, fn, text, flags, i, os.path.splitext(fn)[1], metadata=None)
    # every run sees the two-chain files (clashes between chains) as well as the one-chain ones
    fn = ["tests/4WTI_1_T-P.cif", "tests/1A1T_1_B.cif", "tests/1DFU_1_M-N.cif", "tests/1E7K_1_C.cif", "tests/184D.cif"][i % 5]
    if i % 4 == 3:
        # nearly superposed copies of one nucleotide stored as chains A, B, ...: clashes BETWEEN chains
        # (copies are 0.9-1.4 A apart: closer than 0.5 A the reader itself would drop them)
        s = gen3d.apply_ops(shifted_copies(seed, i, rng.randint(2, 4)), [{"op": "round", "decimals": 3}])
        fn = f"shifted-copies-{i}"
    else:
        s = gen3d.load(fn, 1)
        s = gen3d.apply_ops(s, [{"op": "scale", "f": rng.uniform(0.7, 0.9)}, {"op": "round", "decimals": 3}])
    rows = emit.rows_from_structure(s)
    occs = [1.0, 1.0, 0.5, 0.5, 0.3, 0.7, 0.0]
    for r in rows:
        r["occ"] = rng.choice(occs)
    extra = [("exptl", ["entry_id", "method"], [["VMON", "X-RAY DIFFRACTION"]], "kv"), ("refine", ["entry_id", "ls_d_res_high"], [["VMON", "2.10"]], "kv")]
    flags = [f for f in ["--ignore-occupancy", "--nucleic-acid-only", "--ignore-autoclashes", "--require-same-atom-name", "--enable-molprobity-mode"] if rng.random() < 0.4]
    # what the file says about the experiment: both categories (X-ray entries), the method only (NMR entries have no
    # refinement data), nothing (fragments, models), or a PDB file, which has no categories at all
    kind = ["both", "pdb", "method-only", "none", "pdb"][(i // 3) % 5]
    rec.count("note:cli-metadata-" + kind)
    if kind == "pdb" and emit.fits_pdb(rows) and all((r["chain"] or "").strip() for r in rows):
        # as in large entries: serials beyond 9999 (HETATM10001 ...), modified residues and ligands as HETATM
        for k_, r in enumerate(rows):
            r["serial"] = 9990 + k_
            if r["resname"] not in ("A", "C", "G", "U", "DA", "DC", "DG", "DT") or k_ % 7 == 3:
                r["rec"] = "HETATM"
        return _run_cli_text(rec, fn, emit.emit_pdb(rows), flags, i, ".pdb", metadata=("", ""), rows=rows)
    cats = {"both": extra, "method-only": extra[:1]}.get(kind, [])
    # occupancies in every spelling the mmCIF number grammar allows (0.50, +0.50, 5.0E-01, .50)
    text = emit.emit_cif(rows, extra_cats=cats, occ_spellings=i % 2 == 0)
    return _run_cli_text(rec, fn, text, flags, i, ".cif", metadata=("X-RAY DIFFRACTION" if cats else "", "2.10" if len(cats) == 2 else ""), rows=rows)


def _run_cli_text(rec, fn, text, flags, i, suffix, metadata, rows=None):
    from rnapolis import clashfinder, parser

    d = tempfile.mkdtemp(prefix="vmon-c17-")
    try:
        pin, pcsv = os.path.join(d, "in" + suffix), os.path.join(d, "out.csv")
        open(pin, "w").write(text)
        if i % 2 == 1:
            # the CSV path already holds the result of an earlier run (another structure, other options)
            with open(pcsv, "w") as fh:
                fh.write("Filename,Experimental method,Resolution,Atom 1,Atom 2,Occupancy sum,Classification\nolder,X-RAY DIFFRACTION,1.50,A.G1 P,A.G1 OP1,2.0,\nolder,X-RAY DIFFRACTION,1.50,A.G1 C1',A.G1 N9,2.0,\n")
        old = sys.argv
        sys.argv = ["clashfinder", pin, "--csv", pcsv] + flags
        buf = io.StringIO()
        captured = {}
        orig = clashfinder.find_clashes

        def spy(*a, **k):
            res = orig(*a, **k)
            captured["res"] = res
            return res

        clashfinder.find_clashes = spy
        try:
            with contextlib.redirect_stdout(buf):
                clashfinder.main()
            err = None
        except Exception as e:
            err = repr(e)
        finally:
            sys.argv = old
            clashfinder.find_clashes = orig
        det = lambda extra=None: {"file": fn, "flags": flags, "i": i, "info": extra}
        if err is not None:
            rec.violation("cli.no-crash", det(err), mechanism=f"crash:{err.split('(')[0]}")
            return False
        clashes = captured.get("res", [])
        # the list the tool worked from is the library's list for the residues of the file, read the default way, under
        # the options given (this call is itself judged by the pair-set monitor)
        with open(pin) as fh:
            own = orig(parser.read_3d_structure(fh, 1).residues, *[f in flags for f in ("--ignore-occupancy", "--ignore-autoclashes", "--nucleic-acid-only", "--require-same-atom-name", "--enable-molprobity-mode")])
        key = lambda lst: sorted((str(ri), ai.name, round(ai.x, 3), round(ai.y, 3), round(ai.z, 3), str(rj), aj.name, round(aj.x, 3), round(aj.y, 3), round(aj.z, 3), occ) for (ri, ai), (rj, aj), occ in lst)
        ko, kc = key(own), key(clashes)
        if rows is not None:
            # ... and it is the list for the atoms WRITTEN into the file (names, coordinates, occupancies of the table
            # the file was made from, as an in-memory structure with the reader's one-letter names)
            from vmon import work3d

            with open(pin) as fh:
                read = parser.read_3d_structure(fh, 1)
            twin = work3d.structure_from_rows(rows, read)
            if sum(len(r.atoms) for r in twin.residues) != sum(len(r.atoms) for r in read.residues):
                # the reader may drop one of two atoms closer than 0.5 A - and nothing else
                X = np.array([[r["x"], r["y"], r["z"]] for r in rows])
                dmin = 9.0
                for a0 in range(0, len(X), 500):
                    D = np.sqrt(((X[a0 : a0 + 500, None, :] - X[None, :, :]) ** 2).sum(-1))
                    D[np.arange(min(500, len(X) - a0)), np.arange(a0, min(a0 + 500, len(X)))] = 9.0
                    dmin = min(dmin, float(D.min()))
                if dmin > 0.5 + 1e-6:
                    rec.violation("cli.list-is-the-list-for-the-written-atoms", det({"atoms-written": len(rows), "atoms-the-tool-worked-on": sum(len(r.atoms) for r in read.residues),
                                                                                     "closest-pair-written": round(dmin, 3)}), mechanism="reader-lost-atoms")
                else:
                    rec.undecided("cli.list-is-the-list-for-the-written-atoms", "the reader kept another number of atoms (pairs closer than 0.5 A exist)")
            else:
                kw = key(orig(twin.residues, *[f in flags for f in ("--ignore-occupancy", "--ignore-autoclashes", "--nucleic-acid-only", "--require-same-atom-name", "--enable-molprobity-mode")]))
                rec.check("cli.list-is-the-list-for-the-written-atoms", kw == kc, lambda: det({"tool": len(kc), "written-atoms": len(kw), "only-written": [x for x in kw if x not in set(kc)][:3], "only-tool": [x for x in kc if x not in set(kw)][:3]}))
        rec.check("cli.list-equals-library-list", ko == kc, lambda: det({"tool": len(kc), "library": len(ko), "only-library": [x for x in ko if x not in set(kc)][:3], "only-tool": [x for x in kc if x not in set(ko)][:3]}))
        # expected maxima over the listed clashes
        res_max, chain_max, atom_lines = {}, {}, []
        for (ri, ai), (rj, aj), occ in clashes:
            kr = (str(ri), str(rj))
            res_max[kr] = max(res_max.get(kr, 0.0), occ)
            kc = (ri.chain, rj.chain)
            chain_max[kc] = max(chain_max.get(kc, 0.0), occ)
            atom_lines.append((kr, ai.name, aj.name, occ))
        got_chain, got_res, got_atoms = {}, {}, []
        cur_res = None
        for line in buf.getvalue().splitlines():
            m = LINE_CHAIN1.match(line)
            if m:
                got_chain[(m.group(1), m.group(1))] = float(m.group(2))
                continue
            m = LINE_CHAIN2.match(line)
            if m:
                got_chain[(m.group(1), m.group(2))] = float(m.group(3))
                continue
            m = LINE_RES1.match(line)
            if m:
                cur_res = (m.group(1), m.group(1))
                got_res[cur_res] = float(m.group(2))
                continue
            m = LINE_RES2.match(line)
            if m:
                cur_res = (m.group(1), m.group(2))
                got_res[cur_res] = float(m.group(3))
                continue
            m = LINE_ATOM.match(line)
            if m:
                got_atoms.append((cur_res, m.group(1), m.group(2), float(m.group(3))))
        badc = {k: (got_chain.get(k), v) for k, v in chain_max.items() if got_chain.get(k) is None or not math.isclose(got_chain[k], v)}
        rec.check("cli.chain-max", not badc and set(got_chain) == set(chain_max), lambda: det({"printed-vs-expected": {str(k): v for k, v in list(badc.items())[:4]}}),
                  mechanism="per-chain-maximum-is-last-occupancy-sum" if badc else None)
        badr = {k: (got_res.get(k), v) for k, v in res_max.items() if got_res.get(k) is None or not math.isclose(got_res[k], v)}
        rec.check("cli.residue-max", not badr and set(got_res) == set(res_max), lambda: det({"printed-vs-expected": {str(k): v for k, v in list(badr.items())[:4]}}))
        rec.check("cli.atom-lines-equal-list", sorted(got_atoms) == sorted(set(atom_lines)), lambda: det({"printed": len(got_atoms), "listed": len(atom_lines)}))
        if clashes:
            rows_csv = list(csv.reader(open(pcsv)))[1:] if os.path.exists(pcsv) else None
            want = sorted((f"{ri} {ai.name}", f"{rj} {aj.name}", str(occ)) for (ri, ai), (rj, aj), occ in clashes)
            gotc = sorted((r[3], r[4], r[5]) for r in rows_csv) if rows_csv is not None else None
            rec.check("cli.csv-equals-list", rows_csv is not None and gotc == sorted(set(want)) and (metadata is None or all((r[1], r[2]) == metadata for r in rows_csv or [])),
                      lambda: det({"csv-rows": None if rows_csv is None else len(rows_csv), "listed": len(want)}))
        return bool(clashes)
    finally:
        import shutil

        shutil.rmtree(d, ignore_errors=True)


def run_case(case, rec):
    seed = os.environ.get("VERIF_SEED", "0")
    fam = case["family"]
    if fam == "converted-mmcif-with-insertion-codes":
        # a PDB file with insertion codes converted to mmCIF by the library's own writer (which derives the label numbering
        # from the PDB numbers: 10 and 10A share a label), read back and searched for clashes under every option set
        from rnapolis import parser_v2

        rng = random.Random(f"{seed}:C17:conv:{case['i']}")
        base = gen3d.apply_ops(gen3d.load(case["file"], 1), [{"op": "icodes", "seed": f"c17-{case['i']}", "frac": 0.8}, {"op": "scale", "f": rng.uniform(0.72, 0.85)}, {"op": "round", "decimals": 3}])
        rows = emit.rows_from_structure(base)
        if not emit.fits_pdb(rows) or any(len(r["chain"] or "") != 1 for r in rows):
            return
        try:
            s = emit.read_text(parser_v2.write_cif(parser_v2.parse_pdb_atoms(emit.emit_pdb(rows))), ".cif")
        except Exception as e:
            rec.undecided("clashes.equal-reference", f"conversion or reading raised {type(e).__name__}")
            return
        _cur["ctx"] = {"file": case["file"], "route": "PDB text -> parse_pdb_atoms -> write_cif -> read_3d_structure", "insertion-codes": True}
        rec.mark_nontrivial(run_all_options(rec, s))
        return
    if fam == "cli-deposited-file":
        _cur["ctx"] = {"cli": case["i"], "file": case["file"], "flags": case["flags"]}
        rec.mark_nontrivial(run_cli(rec, seed, case["i"], raw=case))
        return
    if fam == "cli":
        _cur["ctx"] = {"cli": case["i"]}
        rec.mark_nontrivial(run_cli(rec, seed, case["i"]))
        return
    if fam == "crowded":
        s = crowded(seed, case["i"])
        _cur["ctx"] = {"crowded": case["i"], "residues": len(s.residues)}
        rec.mark_nontrivial(run_all_options(rec, s))
        return
    if fam == "synthetic-contacts":
        s = synthetic(seed, case["i"])
        _cur["ctx"] = {"synthetic": case["i"], "atoms": [[str(r), a.name, round(a.x, 4), round(a.y, 4), round(a.z, 4), a.occupancy] for r in s.residues for a in r.atoms][:24]}
    else:
        s = gen3d.load(case["file"], 1)
        ops = [o for o in case["ops"] if o["op"] != "occupancy"]
        if ops:
            s = gen3d.apply_ops(s, ops)
        for o in case["ops"]:
            if o["op"] == "occupancy":
                s = with_occupancy(s, o["seed"])
        _cur["ctx"] = {"file": case["file"], "ops": case["ops"]}
    rec.mark_nontrivial(run_all_options(rec, s))


def classify(v):
    return v.get("mechanism")
