"""C10 - fitting to PDB limits is a structure-preserving renaming or a clean refusal."""
import os
import random
import traceback

from vmon import core, emit, gen3d, gentab
from vmon.props import c09

ID = "C10"
LEVEL = "exploration"
RULE = (
    "cases: atom tables derived from mmCIF and PDB text (independent emitter) that fit PDB limits, and tables beyond them: multi-"
    "character chain ids, residue numbers above 9999, serials above 99999, insertion codes, more than 62 chains, more than 9999 "
    "residues in a chain, more than 99999 atoms (thorough), residues whose records are not contiguous, PDB-format frames edited "
    "beyond the limits after parsing, plus corpus assembly files (4gqj-assembly1 has chains A-2/B-2). "
    "fit_to_pdb / can_write_pdb are monitored: result within limits, atoms in order with all other fields unchanged, chain and "
    "residue renaming one-to-one and grouping-preserving, ValueError iff an independent feasibility test says no fit exists, "
    "fitting tables returned unchanged, fitted table survives write_pdb -> parse_pdb_atoms. Non-trivial = the table does not fit "
    "as given (renaming or refusal required); distinct = canonical JSON hash of the case descriptor."
)
ASSUMPTIONS = ["feasibility: atoms + chain runs (one TER each) <= 99999, chains <= 62, distinct (number, icode) per chain <= 9999", "table normalisation shared with C09 (vmon/props/c09.py:norm_df)"]
REQUIRED_MONITORS = ["parser_v2.fit_to_pdb", "parser_v2.can_write_pdb"]
REQUIRED_CLAUSES = ["fit.within-limits", "fit.fields-preserved", "fit.renaming-bijective", "fit.refusal-iff-infeasible", "fit.fitting-table-unchanged", "fit.written-and-read-back"]
LANDMARKS = {
    "chain-mapping": ("fit_to_pdb", "df_fitted[chain_col] = df_fitted[chain_col].map(chain_mapping)"),
    "too-many-chains": ("fit_to_pdb", "Cannot fit to PDB: Number of unique chains"),
    "too-many-residues": ("fit_to_pdb", "Cannot fit to PDB: Maximum residues in a single chain"),
    "fits-unchanged": ("fit_to_pdb", "return df"),
}
_cur = {}


def feasible(rows):
    chains = []
    per = {}
    for r in rows:
        if r["chain"] not in chains:
            chains.append(r["chain"])
        per.setdefault(r["chain"], set()).add((r["resseq"], r["icode"]))
    # every run of records of one chain (within a model) is closed by a TER record, which takes a serial number of its own
    runs, last = 0, None
    for r in rows:
        if (r["model"], r["chain"]) != last:
            runs += 1
            last = (r["model"], r["chain"])
    return len(rows) + max(runs, len(chains)) <= 99999 and len(chains) <= 62 and max((len(v) for v in per.values()), default=0) <= 9999


def fits(rows):
    return all(len(str(r["chain"])) <= 1 and r["resseq"] <= 9999 and r["serial"] <= 99999 for r in rows)


def _post_fit(snap, result, exc, args, kwargs):
    rec = _cur["rec"]
    exp = _cur.get("expect")
    if exp is None:
        return
    rows, ctx, src = exp["rows"], exp["ctx"], exp["source"]
    det = lambda extra=None: {"ctx": ctx, "source-format": src, "info": extra}
    ok_fit = fits(rows) or src == "PDB"
    feas = feasible(rows)
    if exc is not None:
        if isinstance(exc, ValueError) and not ok_fit and not feas:
            rec.ok("fit.refusal-iff-infeasible")
            return
        tb = traceback.extract_tb(exc.__traceback__)
        where = [f"{f.filename.split('/')[-1]}:{f.lineno}:{f.name}" for f in tb[-3:]]
        mech = f"raises-{type(exc).__name__}-although-a-fit-exists" if feas else f"crash:{type(exc).__name__}"
        rec.violation("fit.refusal-iff-infeasible", det({"exception": repr(exc)[:300], "tb": where, "feasible": feas}), mechanism=mech)
        return
    if not ok_fit and not feas:
        rec.violation("fit.refusal-iff-infeasible", det("returned a table although no fit exists"), mechanism=None)
        return
    rec.ok("fit.refusal-iff-infeasible")
    if ok_fit:
        same = result is args[0]
        if not same:
            try:
                same = c09.compare(c09.norm_df(args[0]), c09.norm_df(result)) is None
            except Exception:
                same = False
        rec.check("fit.fitting-table-unchanged", same, lambda: det("a table that already fits was modified"))
        _cur["fitted"] = result
        return
    try:
        got = c09.norm_df(result)
    except Exception as e:
        rec.violation("fit.result-is-a-table", det(repr(e)[:200]), mechanism=None)
        return
    if not rec.check("fit.row-count", len(got) == len(rows), lambda: det({"rows": len(rows), "got": len(got)})):
        return
    bad = next(((i, g) for i, g in enumerate(got) if not (g["serial"] is not None and 0 < g["serial"] <= 99999 and g["chain"] is not None and len(g["chain"]) == 1 and g["resseq"] is not None and g["resseq"] <= 9999)), None)
    rec.check("fit.within-limits", bad is None and result.attrs.get("format") == "PDB", lambda: det({"row": bad}))
    diff = None
    for i, (a, g) in enumerate(zip(rows, got)):
        for k in ("rec", "name", "alt", "resname", "x", "y", "z", "occ", "b", "element", "charge", "model"):
            w, v = a[k], g[k]
            if k == "charge":
                w = c09.charge_int(w)
            if k in ("x", "y", "z", "occ", "b"):
                ok = (w is None and v is None) or (w is not None and v is not None and abs(float(v) - w) <= 1e-6)
            else:
                ok = w == v
            if not ok:
                diff = (i, k, w, v)
                break
        if diff:
            break
    rec.check("fit.fields-preserved", diff is None, lambda: det({"row": diff[0], "field": diff[1], "want": diff[2], "got": diff[3]}))
    cmap, rmap, cinv, rinv = {}, {}, {}, {}
    bij = None
    for a, g in zip(rows, got):
        for src_k, dst_k, fwd, inv in ((a["chain"], g["chain"], cmap, cinv), ((a["chain"], a["resseq"], a["icode"]), (g["chain"], g["resseq"], g["icode"]), rmap, rinv)):
            if fwd.setdefault(src_k, dst_k) != dst_k:
                bij = ("one source mapped to two targets", src_k, fwd[src_k], dst_k)
            if inv.setdefault(dst_k, src_k) != src_k:
                bij = ("two sources mapped to one target", dst_k, inv[dst_k], src_k)
    serials = [g["serial"] for g in got]
    if serials != sorted(set(serials)):
        bij = ("serials not strictly increasing", serials[:10])
    rec.check("fit.renaming-bijective", bij is None, lambda: det({"problem": bij}))
    _cur["fitted"] = result


def setup(rec, reach):
    from rnapolis import parser_v2

    _cur["rec"] = rec
    core.wrap(parser_v2, "fit_to_pdb", rec, post=_post_fit, label="parser_v2.fit_to_pdb")
    core.wrap(parser_v2, "can_write_pdb", rec, label="parser_v2.can_write_pdb")
    for n in ("fit_to_pdb", "can_write_pdb"):
        reach.add(getattr(parser_v2, n), n)


def cases(shard, nshards, seed, tier):
    k = 0

    def mine():
        nonlocal k
        k += 1
        return (k - 1) % nshards == shard

    n = 300 if tier == "quick" else 5000
    for i in range(n):
        if mine():
            yield {"family": "generated", "i": i}
    for fn in ("tests/4gqj-assembly1.cif", "tests/1ehz-assembly-1.cif", "tests/1A1T_1_B.cif", "tests/4qln.pdb", "tests/4WTI_1_T-P.cif"):
        if mine():
            yield {"family": "corpus-file", "file": fn}
    # parse a large table, keep a subset (one model / a few chains, as the splitter does), then fit
    for i in range(6 if tier == "quick" else 60):
        if mine():
            yield {"family": "subset", "i": i}
    for i in range(8 if tier == "quick" else 80):
        if mine():
            yield {"family": "derived", "i": i}
    for kind in (["many-chains", "many-residues", "exactly-62-chains", "many-residues-by-icode", "serial-exactly-99999", "resseq-exactly-9999", "ten-models-just-under-100000-atoms"] if tier == "quick" else
                 ["many-chains", "many-residues", "many-atoms", "exactly-62-chains", "exactly-9999-residues", "many-residues-by-icode", "exactly-9999-residues-by-icode", "serial-exactly-99999", "resseq-exactly-9999", "ten-models-just-under-100000-atoms"]):
        if mine():
            yield {"family": "limit", "kind": kind}
    # the consumer of the fitting: the splitter tool writing every model of an mmCIF file as PDB, where the first model
    # is inside the limits and a later one is not (atom ids run on across the models and pass 99999 inside model 2 or 3)
    for nmodels in (2, 3):
        if mine():
            yield {"family": "splitter-later-model-beyond-limits", "models": nmodels}


_IDS = "ABCDEFGHIJKLMNOPQRSTUVWXYZabcdefghijklmnopqrstuvwxyz0123456789"


def beyond(rng, rows, runs_of_ids=False):
    """Push a table beyond PDB limits in one or more ways.  runs_of_ids: the only excess is chain names of two or
    three characters that are consecutive one-character ids (AB, Za, 12, XYZ) next to one-character names."""
    if runs_of_ids:
        chains = []
        for r in rows:
            if r["chain"] not in chains:
                chains.append(r["chain"])
        ren = {}
        for j, c in enumerate(chains):
            k = _IDS.find(c)
            ren[c] = _IDS[k:k + rng.choice([2, 2, 3])] if (j == 0 or rng.random() < 0.5) and 0 <= k < len(_IDS) - 3 else c
        if len(set(ren.values())) == len(ren) and any(len(v) > 1 for v in ren.values()):
            for r in rows:
                r["chain"] = ren[r["chain"]]
            return ["multichar-chain:consecutive-ids"]
    ways = rng.sample(["multichar-chain", "big-resseq", "big-serial"], rng.randint(1, 3))
    chains = []
    for r in rows:
        if r["chain"] not in chains:
            chains.append(r["chain"])
    if "multichar-chain" in ways:
        ren = {c: (c + rng.choice(["A", "-2", "b1", "XY"]) if rng.random() < 0.7 else c) for c in chains}
        if all(len(v) == 1 for v in ren.values()):
            ren[chains[0]] = chains[0] + "-2"
        for r in rows:
            r["chain"] = ren[r["chain"]]
    if "big-resseq" in ways:
        off = rng.choice([9995, 20000, 123456])
        target = rng.choice(chains)
        for r in rows:
            if r["chain"].startswith(target):
                r["resseq"] += off
    if "big-serial" in ways:
        off = rng.choice([99990, 100000, 250000])
        for r in rows:
            r["serial"] += off
    return ways


def run_case(case, rec):
    from rnapolis import parser_v2 as p2

    seed = os.environ.get("VERIF_SEED", "0")
    fam = case["family"]
    ctx = dict(case)
    if fam == "generated":
        rng = random.Random(f"{seed}:C10:{case['i']}")
        # every fifth table: the first chain has no chain id at all (blank in PDB, '.' / '?' in mmCIF)
        rows = gentab.random_table(rng, nmodels=rng.choice([1, 1, 2]), wide=False, hetero=case["i"] % 4 == 1, blank_chain=case["i"] % 5 == 4)
        mode = rng.choice(["fits-cif", "fits-pdb", "beyond", "beyond", "beyond"])
        if case["i"] % 3 == 2:
            # residues whose records are not contiguous (conformer blocks, atoms appended after a later residue)
            ctx["scattered-residues"] = gentab.scatter_residue_atoms(rng, rows)
        if mode == "beyond":
            ctx["ways"] = beyond(rng, rows, runs_of_ids=case["i"] % 7 == 3)
            src = "mmCIF"
        else:
            src = "PDB" if mode == "fits-pdb" else "mmCIF"
            if src == "PDB" and not emit.fits_pdb(rows):
                src = "mmCIF"
        ctx["mode"] = mode
    elif fam == "splitter-later-model-beyond-limits":
        return _splitter_case(case, rec)
    elif fam == "subset":
        rng = random.Random(f"{seed}:C10:subset:{case['i']}")
        rows = []
        serial = 0
        nbig = rng.choice([64, 70, 100])
        for c in range(3):
            for a in ("P", "C1'", "N1"):
                serial += 1
                rows.append(dict(_row(serial, a, f"K{c}x", 5 + c, serial), model=1))
        for c in range(nbig):
            for a in ("P", "C1'"):
                serial += 1
                rows.append(dict(_row(serial, a, f"M{c:03d}", 1, serial), model=2))
        df_all = p2.parse_cif_atoms(emit.emit_cif(rows))
        if rng.random() < 0.7:
            p2.can_write_pdb(df_all)  # the parent is checked first, as a caller deciding on the output format would
        keep_model = rng.choice([1, 1, 2])
        df = df_all[df_all["pdbx_PDB_model_num"] == keep_model].copy()
        df.attrs["format"] = "mmCIF"
        sub = [r for r in rows if r["model"] == keep_model]
        ctx["kept-model"] = keep_model
        _drive(rec, df, sub, ctx, "mmCIF")
        return
    elif fam == "derived":
        # (a) the parent does not fit, the derived sub-table does  (b) the parent fits, the derived copy does not
        rng = random.Random(f"{seed}:C10:derived:{case['i']}")
        base = gentab.random_table(rng, nmodels=1, nchains=3, wide=False, serial_start=0)
        chains = []
        for r in base:
            if r["chain"] not in chains:
                chains.append(r["chain"])
        if case["i"] % 2 == 0:
            parent = [dict(r) for r in base]
            for r in parent:
                if r["chain"] == chains[-1]:
                    r["chain"] += "Z"
            df_all = p2.parse_cif_atoms(emit.emit_cif(parent))
            p2.can_write_pdb(df_all)
            try:
                p2.fit_to_pdb(df_all)
            except Exception:
                pass
            df = df_all[df_all["auth_asym_id"] == chains[0]].reset_index(drop=True)
            sub = [r for r in base if r["chain"] == chains[0]]
            ctx["variant"] = "parent-does-not-fit/sub-table-fits"
        else:
            df_all = p2.parse_cif_atoms(emit.emit_cif(base))
            p2.can_write_pdb(df_all)
            df = df_all.copy()
            df["auth_asym_id"] = df["auth_asym_id"].astype(str) + "Q"
            df["auth_seq_id"] = (df["auth_seq_id"].astype(int) + 10000).astype(str).astype("category")
            sub = [dict(r, chain=r["chain"] + "Q", resseq=r["resseq"] + 10000) for r in base]
            ctx["variant"] = "parent-fits/derived-copy-does-not"
        _drive(rec, df, sub, ctx, "mmCIF")
        return
    elif fam == "corpus-file":
        path = os.path.join(core.REPO, case["file"])
        src = "mmCIF" if case["file"].endswith(".cif") else "PDB"
        with open(path) as f:
            df = p2.parse_cif_atoms(f) if src == "mmCIF" else p2.parse_pdb_atoms(f)
        rows = c09.norm_df(df)
        for r in rows:
            r["name"] = r["name"].split("|auth=")[0]
        _drive(rec, df, rows, ctx, src)
        return
    else:
        rng = random.Random(f"{seed}:C10:limit:{case['kind']}")
        rows = []
        serial = 0
        kind = case["kind"]
        if kind in ("many-chains", "exactly-62-chains"):
            nch = 70 if kind == "many-chains" else 62
            for c in range(nch):
                for a in ("P", "C1'"):
                    serial += 1
                    rows.append(_row(serial, a, f"C{c:02d}", 1, c))
        elif kind in ("many-residues", "exactly-9999-residues"):
            nres = 10005 if kind == "many-residues" else 9999
            for i in range(nres):
                serial += 1
                rows.append(_row(serial, "P", "LONG", i + 1, i))
        elif kind in ("many-residues-by-icode", "exactly-9999-residues-by-icode"):
            # more than 9999 residues in a chain although fewer than 9999 distinct residue NUMBERS: every number
            # occurs without and with insertion code A
            nres = 10002 if kind == "many-residues-by-icode" else 9999
            for i in range(nres):
                serial += 1
                r = _row(serial, "P", "LONG", i // 2 + 1, i)
                r["icode"] = "A" if i % 2 else None
                rows.append(r)
        elif kind == "serial-exactly-99999":
            # the largest legal serial: a fragment whose ids end at 99999 fits as it is
            for i, sn in enumerate([99957, 99960, 99961, 99970, 99990, 99998, 99999]):
                rows.append(_row(sn, ["P", "C1'", "N1"][i % 3], "B" if i < 4 else "A", 9990 + i, i))
        elif kind == "resseq-exactly-9999":
            for i, num in enumerate([9997, 9998, 9999]):
                for a in ("P", "C1'"):
                    serial += 1
                    rows.append(_row(serial, a, "Z", num, serial))
        elif kind == "ten-models-just-under-100000-atoms":
            # 99 990 atoms in ten models of four two-character chains: with one TER per chain and model the serials
            # would pass 99 999 although atoms + distinct chains does not
            for m in range(1, 11):
                for ci, ch in enumerate(("AA", "BB", "CC", "DD")):
                    for i in range(2500 if ci < 3 else 2499):
                        serial += 1
                        r = _row(serial, "P", ch, i + 1, serial)
                        r["model"] = m
                        rows.append(r)
        else:
            for i in range(100001):
                serial += 1
                rows.append(_row(serial, "P", "AB", i // 3 + 1, i))
        src = "mmCIF"
    if src == "PDB":
        df = p2.parse_pdb_atoms(emit.emit_pdb(rows))
    else:
        # label identifiers that would not fit PDB next to author identifiers that do (or do not): only the
        # author identifiers are written to PDB, so only they decide
        wide = fam == "generated" and case["i"] % 2 == 0
        if wide:
            ctx["label-ids"] = "wide"
        decimals = 3
        if fam == "generated" and case["i"] % 3 == 0:
            # mmCIF coordinates with more decimals than a PDB field holds: fitting renames, it does not round
            decimals = 5
            ctx["coordinate-decimals"] = 5
            for k, r in enumerate(rows):
                for c in "xyz":
                    r[c] = round(r[c] + ((k * 37 + ord(c)) % 89) * 1e-5, 5)
        drop = ()
        if fam == "generated" and case["i"] % 8 in (5, 6) and not wide:
            # a file that carries only one of the two optional author items for names (the other name is in its label_ item)
            drop = (("auth_comp_id",), ("auth_atom_id",))[case["i"] % 8 - 5]
            ctx["items-absent"] = list(drop)
        df = p2.parse_cif_atoms(emit.emit_cif(rows, label_asym="wide" if wide else "auth", decimals=decimals, drop_cols=drop))
    _drive(rec, df, rows, ctx, src)


def _row(serial, name, chain, resseq, k):
    return {"rec": "ATOM", "serial": serial, "name": name, "alt": None, "resname": "A", "chain": chain, "resseq": resseq, "icode": None,
            "x": round((k % 97) * 1.5, 3), "y": round((k % 89) * 1.1, 3), "z": round((k % 83) * 0.7, 3), "occ": 1.0, "b": 10.0, "element": name[0], "charge": None, "model": 1}


def _drive(rec, df, rows, ctx, src):
    from rnapolis import parser_v2 as p2

    rec.mark_nontrivial(not (fits(rows) or src == "PDB"))
    _cur["expect"] = {"rows": rows, "ctx": ctx, "source": src}
    _cur["fitted"] = None
    try:
        try:
            p2.fit_to_pdb(df)
        except Exception:
            pass
    finally:
        _cur["expect"] = None
    fitted = _cur.get("fitted")
    if fitted is None:
        return
    # the fitted table can be written as PDB and read back to the same structure
    try:
        text = p2.write_pdb(fitted)
        back = c09.norm_df(p2.parse_pdb_atoms(text))
        want = c09.norm_df(fitted)
    except Exception as e:
        tb = traceback.extract_tb(e.__traceback__)
        rec.violation("fit.written-and-read-back", {"ctx": ctx, "exception": repr(e)[:300], "tb": [f"{f.filename.split('/')[-1]}:{f.lineno}:{f.name}" for f in tb[-3:]]}, mechanism=f"crash:{type(e).__name__}")
        return
    for r in want:
        r["name"] = r["name"].split("|auth=")[0]
    diff = c09.compare(want, back) if all(r["occ"] is not None and r["b"] is not None for r in want) else None
    rec.check("fit.written-and-read-back", diff is None, lambda: {"ctx": ctx, "first-difference": diff})


def _splitter_case(case, rec):
    import contextlib
    import io
    import shutil
    import sys
    import tempfile

    from rnapolis import parser_v2 as p2
    from rnapolis import splitter

    rng = random.Random(f"C10:splitter:{case['models']}")
    one = gentab.random_table(rng, nmodels=1, nchains=2, wide=False, serial_start=0)
    per = len(one)
    first = 99999 - per - rng.randint(0, per // 2)   # model 1 ends at or below 99999, the next model passes it
    rows = []
    for m in range(1, case["models"] + 1):
        for i, r in enumerate(one):
            rows.append(dict(r, model=m, serial=first + (m - 1) * per + i, x=round(r["x"] + 0.25 * (m - 1), 3)))
    d = tempfile.mkdtemp(prefix="vmon-c10-")
    old = sys.argv
    ctx = {"family": case["family"], "models": case["models"], "atoms-per-model": per, "first-serial": first}
    try:
        inp = os.path.join(d, "ensemble.cif")
        with open(inp, "w") as fh:
            fh.write(emit.emit_cif(rows))
        out = os.path.join(d, "out")
        sys.argv = ["splitter", "-o", out, "-f", "PDB", inp]
        buf = io.StringIO()
        try:
            with contextlib.redirect_stdout(buf), contextlib.redirect_stderr(buf):
                splitter.main()
        except SystemExit:
            pass
        except Exception as e:
            rec.violation("splitter.models-written-as-pdb-read-back", {"ctx": ctx, "exception": repr(e)[:300]}, mechanism=f"crash:{type(e).__name__}")
            return
        rec.mark_nontrivial(True)
        for m in range(1, case["models"] + 1):
            want = [r for r in rows if r["model"] == m]
            path = os.path.join(out, f"ensemble_model_{m}.pdb")
            if not os.path.exists(path):
                rec.violation("splitter.models-written-as-pdb-read-back", {"ctx": ctx, "model": m, "problem": "no file written", "tool-output": buf.getvalue()[-300:]}, mechanism="model-file-missing")
                continue
            try:
                got = c09.norm_df(p2.parse_pdb_atoms(open(path).read()))
            except Exception as e:
                rec.violation("splitter.models-written-as-pdb-read-back", {"ctx": ctx, "model": m, "exception": repr(e)[:300]}, mechanism=f"crash:{type(e).__name__}")
                continue
            prob = None
            if len(got) != len(want):
                prob = {"atoms-written": len(want), "atoms-read-back": len(got)}
            else:
                groups_w, groups_g = {}, {}
                for i, (w, g) in enumerate(zip(want, got)):
                    if (w["name"], w["resname"]) != (g["name"], g["resname"]) or any(abs(w[k] - g[k]) > 0.0011 for k in "xyz"):
                        prob = {"row": i, "written": {k: w[k] for k in ("name", "resname", "x", "y", "z")}, "read-back": {k: g[k] for k in ("name", "resname", "x", "y", "z")}}
                        break
                    if not (g["serial"] is not None and 0 < g["serial"] <= 99999):
                        prob = {"row": i, "serial-read-back": g["serial"]}
                        break
                    groups_w.setdefault((w["chain"], w["resseq"], w["icode"]), []).append(i)
                    groups_g.setdefault((g["chain"], g["resseq"], g["icode"]), []).append(i)
                if prob is None and sorted(groups_w.values()) != sorted(groups_g.values()):
                    prob = {"residues-written": len(groups_w), "residues-read-back": len(groups_g)}
            rec.check("splitter.models-written-as-pdb-read-back", prob is None, lambda: {"ctx": ctx, "model": m, "first-difference": prob})
    finally:
        sys.argv = old
        shutil.rmtree(d, ignore_errors=True)


def classify(v):
    return v.get("mechanism")
