"""C09 - PDB/mmCIF write-read round trips preserve every atom field; PDB layout."""
import io
import math
import os
import random
import tempfile

from vmon import core, emit, gen3d, gentab
from vmon.oracles import pdbfmt

ID = "C09"
LEVEL = "exploration"
RULE = (
    "cases: (abstract atom table within PDB limits, path) with path in {PDB->PDB, mmCIF->mmCIF, PDB->mmCIF->PDB, mmCIF->PDB->mmCIF}; "
    "tables sampled field by field (1-4 char atom names incl. primes and leading digits, 1-2 letter elements, negative/extreme "
    "coordinates and numbers, charges, insertion codes, alt-locs, 1-5 models, 1-4 chains, HETATM) plus corpus tables; text is "
    "produced by the independent emitter, pushed through parse_*_atoms / write_* of parser_v2, and the final table compared field "
    "by field with the abstract one (0.001 on coordinates, 0.01 on occupancy/B); a third of the cases use the other documented kinds of "
    "input/output objects (StringIO, open text file already read from, binary handle, output path / handle). Every write_pdb result is checked against the "
    "80-column grammar and the record automaton (MODEL (ATOM+ TER)+ ENDMDL)+ END; splitter.main output files likewise. "
    "Non-trivial = table has >=2 atoms; distinct = canonical JSON hash of the case descriptor."
)
ASSUMPTIONS = ["emitter vmon/emit.py; grammar vmon/oracles/pdbfmt.py", "a blank PDB chain id is in domain where the table starts as PDB (PDB->PDB, PDB->mmCIF->PDB); an mmCIF table without any chain id is not generated"]
REQUIRED_MONITORS = ["parser_v2.parse_pdb_atoms", "parser_v2.parse_cif_atoms", "parser_v2.write_pdb", "parser_v2.write_cif"]
REQUIRED_CLAUSES = ["roundtrip.pdb-pdb", "roundtrip.cif-cif", "roundtrip.pdb-cif-pdb", "roundtrip.cif-pdb-cif", "layout.atom-records", "layout.record-sequence", "splitter.layout"]
LANDMARKS = {
    "ter-on-chain-change": ("write_pdb", "if last_chain_id is not None and current_chain_id != last_chain_id:"),
    "model-change": ("write_pdb", 'buffer.write("ENDMDL\\n")'),
    "cif-from-pdb": ("write_cif", "icode_val ="),
}
_cur = {}
FIELDS = ["rec", "serial", "name", "alt", "resname", "chain", "resseq", "icode", "x", "y", "z", "occ", "b", "element", "charge", "model"]


def charge_int(c):
    if c is None:
        return None
    s = str(c).strip()
    if not s:
        return None
    if len(s) == 2 and s[0].isdigit() and s[1] in "+-":
        return int(s[0]) * (1 if s[1] == "+" else -1)
    try:
        return int(float(s))
    except ValueError:
        return s


def norm_df(df):
    import pandas as pd

    fmt = df.attrs.get("format")
    out = []

    def nv(v):
        try:
            if v is None or pd.isna(v):
                return None
        except (TypeError, ValueError):
            pass
        return v

    for _, r in df.iterrows():
        if fmt == "PDB":
            g = lambda k: nv(r.get(k))
            row = {"rec": g("record_type"), "serial": g("serial"), "name": g("name"), "alt": g("altLoc"), "resname": g("resName"), "chain": g("chainID"), "resseq": g("resSeq"),
                   "icode": g("iCode"), "x": g("x"), "y": g("y"), "z": g("z"), "occ": g("occupancy"), "b": g("tempFactor"), "element": g("element"), "charge": g("charge"), "model": g("model")}
        else:
            g = lambda k: nv(r.get(k))
            row = {"rec": g("group_PDB"), "serial": g("id"), "name": g("label_atom_id"), "alt": g("label_alt_id"), "resname": g("auth_comp_id") or g("label_comp_id"), "chain": g("auth_asym_id") if "auth_asym_id" in df.columns else g("label_asym_id"),
                   "resseq": g("auth_seq_id") if "auth_seq_id" in df.columns else g("label_seq_id"), "icode": g("pdbx_PDB_ins_code"), "x": g("Cartn_x"), "y": g("Cartn_y"), "z": g("Cartn_z"), "occ": g("occupancy"), "b": g("B_iso_or_equiv"),
                   "element": g("type_symbol"), "charge": g("pdbx_formal_charge"), "model": g("pdbx_PDB_model_num")}
            if g("auth_atom_id") is not None and g("auth_atom_id") != row["name"]:
                row["name"] = f"{row['name']}|auth={g('auth_atom_id')}"
        for k in ("serial", "resseq", "model"):
            if row[k] is not None:
                try:
                    row[k] = int(row[k])
                except (TypeError, ValueError):
                    pass
        for k in ("rec", "name", "alt", "resname", "chain", "icode", "element"):
            if row[k] is not None:
                row[k] = str(row[k])
        for k in ("alt", "icode", "element"):
            if row[k] == "":
                row[k] = None  # a blank optional field and a missing one are the same thing
        row["charge"] = charge_int(row["charge"])
        out.append(row)
    return out


def compare(abstract, got):
    """-> None or (row index, field, want, got)"""
    if len(abstract) != len(got):
        return ("-", "row-count", len(abstract), len(got))
    for i, (a, g) in enumerate(zip(abstract, got)):
        for k in FIELDS:
            w, v = a[k], g[k]
            if k == "charge":
                w = charge_int(w)
            if k == "chain" and (w is None or not str(w).strip()):
                w = None
                v = None if (v is None or not str(v).strip()) else v
            if k in ("x", "y", "z"):
                ok = v is not None and abs(float(v) - w) <= 0.001 + 1e-9
            elif k in ("occ", "b"):
                ok = (w is None and v is None) or (w is not None and v is not None and abs(float(v) - w) <= 0.01 + 1e-9)
            else:
                ok = w == v
            if not ok:
                return (i, k, w, v)
    return None


def _layout(rec, text, where, ctx):
    bad = []
    for ln, line in enumerate(text.split("\n"), 1):
        if line[:6].strip() in ("ATOM", "HETATM"):
            f, why = pdbfmt.parse_atom(line)
            if f is None:
                bad.append(f"line {ln}: {why}: {line!r}")
    rec.check("layout.atom-records", not bad, lambda: {"where": where, "ctx": ctx, "problems": bad[:4]})
    probs = [p for p in pdbfmt.check_document(text) if p[0] != "layout"]
    kinds = sorted({p[0] for p in probs})
    mech = None
    if kinds == ["no-ter-before-model-end"]:
        mech = "no-TER-before-ENDMDL"
    rec.check("layout.record-sequence", not probs, lambda: {"where": where, "ctx": ctx, "problems": [p[1] for p in probs[:4]], "kinds": kinds}, mechanism=mech)


def _post_write_pdb(snap, result, exc, args, kwargs):
    rec = _cur["rec"]
    if exc is not None:
        return
    out = args[1] if len(args) > 1 else kwargs.get("output")
    text = None
    if out is None:
        text = result
    elif isinstance(out, str) and os.path.exists(out):
        text = open(out).read()
    elif hasattr(out, "getvalue"):
        text = out.getvalue()
    if isinstance(text, str):
        _layout(rec, text, "write_pdb", _cur.get("ctx"))


def setup(rec, reach):
    from rnapolis import parser_v2

    _cur["rec"] = rec
    core.wrap(parser_v2, "write_pdb", rec, post=_post_write_pdb, label="parser_v2.write_pdb")
    for n in ("parse_pdb_atoms", "parse_cif_atoms", "write_cif"):
        core.wrap(parser_v2, n, rec, label=f"parser_v2.{n}")
    for n in ("parse_pdb_atoms", "parse_cif_atoms", "write_pdb", "write_cif", "_format_pdb_atom_line"):
        if hasattr(parser_v2, n):  # helpers that are not part of the public interface may be refactored away
            reach.add(getattr(parser_v2, n), n)


def cases(shard, nshards, seed, tier):
    k = 0

    def mine():
        nonlocal k
        k += 1
        return (k - 1) % nshards == shard

    # hostile shapes, always run first: blank chain id (PDB only), several models x several chains
    for h in range(12):
        if mine():
            yield {"family": "hostile", "h": h, "path": "pdb-pdb" if h < 6 else ["cif-cif", "pdb-cif-pdb", "cif-pdb-cif"][h % 3]}
    n = 400 if tier == "quick" else 8000
    for i in range(n):
        if mine():
            yield {"family": "generated", "i": i, "path": ["pdb-pdb", "cif-cif", "pdb-cif-pdb", "cif-pdb-cif"][i % 4]}
        # mmCIF tables carrying label_* identifiers only (no auth_* columns), interleaved with the normal ones
        if i % 10 == 3 and mine():
            yield {"family": "label-only", "i": i, "path": ["cif-cif", "cif-pdb-cif"][(i // 10) % 2]}
        # check the parent table, derive a sub-table with plain pandas, fit (as the splitter does), write, read
        if i % 10 == 7 and mine():
            yield {"family": "derived-subtable", "i": i}
        # two parsed tables joined with plain pandas (pd.concat keeps both indexes: labels are not unique), then written
        if i % 20 == 11 and mine():
            yield {"family": "concatenated-frames", "i": i}
    for path in (("pdb-pdb",) if tier == "quick" else ("pdb-pdb", "cif-pdb-cif")):
        if mine():
            yield {"family": "seventy-thousand-atoms", "path": path}
    files = [f for f in gen3d.corpus_files() if os.path.getsize(os.path.join(core.REPO, f)) < (150_000 if tier == "quick" else 900_000)]
    for fn in files:
        for path in ("pdb-pdb", "cif-cif", "pdb-cif-pdb", "cif-pdb-cif"):
            if mine():
                yield {"family": "corpus", "file": fn, "path": path}
    for fn in (["tests/2HY9.cif"] if tier == "quick" else ["tests/2HY9.cif", "tests/6RS3.cif", "tests/4qln.pdb", "tests/1JJP.cif"]):
        for fmt in ("PDB", "mmCIF"):
            if mine():
                yield {"family": "splitter", "file": fn, "format": fmt}


IN_KINDS = ("str", "stringio", "file", "bytes")  # "bytes" (binary handle) is PDB-only
OUT_KINDS = ("return", "path", "stringio", "file")


def _parse(p2, fmt, text, kind):
    """The documented input kinds: text, StringIO, an open text file, (PDB) an open binary file."""
    import io
    import tempfile

    fn = p2.parse_pdb_atoms if fmt == "pdb" else p2.parse_cif_atoms
    if kind == "bytes" and fmt != "pdb":
        kind = "file"
    _cur["rec"].count(f"io:parse-{fmt}-{kind}")
    if kind == "str":
        return fn(text)
    if kind == "stringio":
        return fn(io.StringIO(text))
    with tempfile.NamedTemporaryFile("w", suffix="." + fmt, delete=False) as t:
        t.write(text)
    try:
        with open(t.name, "rb" if kind == "bytes" else "r") as fh:
            if kind == "file":
                fh.read(37)  # a handle that was already read from: the reader must rewind
            return fn(fh)
    finally:
        os.remove(t.name)


def _write(p2, fmt, df, kind):
    """The documented output kinds: returned text, a path, a StringIO, an open text file."""
    import io
    import tempfile

    fn = p2.write_pdb if fmt == "pdb" else p2.write_cif
    _cur["rec"].count(f"io:write-{fmt}-{kind}")
    if kind == "return":
        return fn(df)
    if kind == "stringio":
        buf = io.StringIO()
        r = fn(df, buf)
        return buf.getvalue() if r is None else ("<returned %r>" % type(r))
    d = tempfile.mkdtemp(prefix="vmon-c09-")
    try:
        pth = os.path.join(d, "out." + fmt)
        if kind == "path":
            fn(df, pth)
        else:
            with open(pth, "w") as fh:
                fn(df, fh)
        return open(pth).read()
    finally:
        import shutil

        shutil.rmtree(d, ignore_errors=True)


def roundtrip(rows, path, io_kinds=None, via_fit=False):
    """Final normalised table.  io_kinds = [(input kind, output kind), ...] per step."""
    from rnapolis import parser_v2 as p2

    steps = path.split("-")
    kinds = io_kinds or [("str", "return")] * len(steps)
    # every other mmCIF-first table carries wide label identifiers (two-character label_asym_id, label_seq_id
    # beyond 9999) next to author identifiers that fit PDB; the conversion then goes through fit_to_pdb, as
    # the repository's own tools do - a table that fits must come out of it unchanged
    wide = steps[0] == "cif" and via_fit
    text = emit.emit_pdb(rows) if steps[0] == "pdb" else emit.emit_cif(rows, label_asym="wide" if wide else "auth")
    df = _parse(p2, steps[0], text, kinds[0][0])
    for k, fmt in enumerate(steps[1:], 1):
        if fmt == "pdb" and via_fit:
            _cur["rec"].count("io:fit_to_pdb-before-write_pdb")
            df = p2.fit_to_pdb(df)
        text = _write(p2, fmt, df, kinds[k][1])
        df = _parse(p2, fmt, text, kinds[k][0])
    return norm_df(df)


def run_case(case, rec):
    seed = os.environ.get("VERIF_SEED", "0")
    fam = case["family"]
    if fam == "splitter":
        _splitter(case, rec)
        return
    if fam == "label-only":
        rng = random.Random(f"{seed}:C09:lo:{case['i']}")
        rows = gentab.random_table(rng, null_occ=False, nmodels=rng.choice([1, 2]))
        if not emit.fits_pdb(rows):
            rec.skip("roundtrip." + case["path"], "outside-PDB-limits")
            return
        ctx = {"i": case["i"], "path": case["path"], "label-only": True}
        _cur["ctx"] = ctx
        rec.mark_nontrivial(len(rows) >= 2)
        from rnapolis import parser_v2 as p2

        try:
            text = emit.emit_cif(rows, label_seq="auth", drop_cols=("auth_seq_id", "auth_comp_id", "auth_asym_id", "auth_atom_id"))
            df = p2.parse_cif_atoms(text)
            if case["path"] == "cif-pdb-cif":
                df = p2.parse_pdb_atoms(p2.write_pdb(df))
            df = p2.parse_cif_atoms(p2.write_cif(df))
            got = norm_df(df)
        except Exception as e:
            rec.violation("roundtrip.no-crash", {"ctx": ctx, "exception": repr(e)[:300]}, mechanism=f"crash:{type(e).__name__}")
            return
        diff = compare(rows, got)
        rec.check("roundtrip.label-only", diff is None, lambda: {"ctx": ctx, "first-difference": diff})
        return
    if fam == "derived-subtable":
        rng = random.Random(f"{seed}:C09:sub:{case['i']}")
        rows = gentab.random_table(rng, null_occ=False, nmodels=1, nchains=3, blank_chain=False, serial_start=0)
        if not emit.fits_pdb(rows):
            rec.skip("roundtrip.cif-pdb-cif", "outside-PDB-limits")
            return
        chains = []
        for r in rows:
            if r["chain"] not in chains:
                chains.append(r["chain"])
        parent = [dict(r) for r in rows]
        for r in parent:  # the parent does not fit: its last chain has a two-letter id
            if r["chain"] == chains[-1]:
                r["chain"] = r["chain"] + "X"
        keep = chains[0]
        sub = [r for r in rows if r["chain"] == keep]
        ctx = {"i": case["i"], "derived-subtable": keep}
        _cur["ctx"] = ctx
        rec.mark_nontrivial(len(sub) >= 2)
        from rnapolis import parser_v2 as p2

        try:
            df_all = p2.parse_cif_atoms(emit.emit_cif(parent))
            p2.can_write_pdb(df_all)
            df = df_all[df_all["auth_asym_id"] == keep].reset_index(drop=True)
            df = p2.parse_pdb_atoms(p2.write_pdb(p2.fit_to_pdb(df)))
            got = norm_df(p2.parse_cif_atoms(p2.write_cif(df)))
        except Exception as e:
            rec.violation("roundtrip.no-crash", {"ctx": ctx, "exception": repr(e)[:300]}, mechanism=f"crash:{type(e).__name__}")
            return
        diff = compare(sub, got)
        rec.check("roundtrip.derived-subtable", diff is None, lambda: {"ctx": ctx, "first-difference": diff})
        return
    if fam == "concatenated-frames":
        import pandas as pd

        from rnapolis import parser_v2 as p2

        rng = random.Random(f"{seed}:C09:concat:{case['i']}")
        fmt = rng.choice(["pdb", "cif"])
        a = gentab.random_table(rng, nmodels=1, nchains=1, altlocs=False, dup_names=False, close_pairs=False, null_occ=False, wide=False, serial_start=0)
        b = gentab.random_table(rng, nmodels=1, nchains=1, altlocs=False, dup_names=False, close_pairs=False, null_occ=False, wide=False, serial_start=len(a))
        used = {r["chain"] for r in a}
        for r in b:
            if r["chain"] in used:
                r["chain"] = next(c for c in "KLMNOPQ" if c not in used)
        ctx = {"i": case["i"], "family": fam, "source-format": fmt}
        if not (emit.fits_pdb(a) and emit.fits_pdb(b)) or any(not (r["chain"] or "").strip() for r in a + b):
            rec.skip("roundtrip.concatenated-frames", "outside-PDB-limits / blank chain")
            return
        rec.mark_nontrivial(True)
        _cur["ctx"] = ctx
        try:
            parse = (lambda rows: p2.parse_pdb_atoms(emit.emit_pdb(rows))) if fmt == "pdb" else (lambda rows: p2.parse_cif_atoms(emit.emit_cif(rows)))
            da, db = parse(a), parse(b)
            df = pd.concat([da, db])  # index labels 0..len(a)-1 occur twice
            df.attrs["format"] = da.attrs.get("format")
            got_c = norm_df(p2.parse_cif_atoms(p2.write_cif(df)))
            got_p = norm_df(p2.parse_pdb_atoms(p2.write_pdb(df)))
        except Exception as e:
            rec.violation("roundtrip.no-crash", {"ctx": ctx, "exception": repr(e)[:300]}, mechanism=f"crash:{type(e).__name__}")
            return
        for how, got in (("write_cif", got_c), ("write_pdb", got_p)):
            diff = compare(a + b, got)
            rec.check("roundtrip.concatenated-frames", diff is None, lambda: {"ctx": ctx, "writer": how, "first-difference": diff})
        return
    if fam == "hostile":
        rng = random.Random(f"C09:hostile:{case['h']}")
        path = case["path"]
        rows = gentab.random_table(rng, nmodels=1 + case["h"] % 3, nchains=2 + case["h"] % 2, blank_chain=(path in ("pdb-pdb", "pdb-cif-pdb")), null_occ=False)
        ctx = {"hostile": case["h"], "path": path}
    elif fam == "generated":
        rng = random.Random(f"{seed}:C09:{case['i']}")
        path = case["path"]
        restart = (case["i"] // 4) % 4 == 1
        rows = gentab.random_table(rng, blank_chain=(path in ("pdb-pdb", "pdb-cif-pdb") and rng.random() < 0.15), null_occ=False, hetero=case["i"] % 3 == 1, nmodels=rng.choice([2, 3]) if restart else None)
        if restart:
            # serial numbers restart in every MODEL (the usual layout of NMR ensembles)
            first = min(r["serial"] for r in rows)
            count = {}
            for r in rows:
                count[r["model"]] = count.get(r["model"], 0) + 1
                r["serial"] = first + count[r["model"]] - 1
        ctx = {"i": case["i"], "path": path, "serials-restart-per-model": restart}
    elif fam == "seventy-thousand-atoms":
        # more lines than 65536: seven chains of a thousand ten-atom residues
        path = case["path"]
        rows, serial = [], 0
        names = ["P", "OP1", "OP2", "O5'", "C5'", "C4'", "C3'", "O3'", "C1'", "N1"]
        for ci, ch in enumerate("ABCDEFG"):
            for rn in range(1, 1001):
                for ai, nm in enumerate(names):
                    serial += 1
                    rows.append({"rec": "ATOM", "serial": serial, "name": nm, "alt": None, "resname": "ACGU"[rn % 4], "chain": ch, "resseq": rn, "icode": None,
                                 "x": round(ci * 40.0 + ai * 1.3, 3), "y": round(rn * 0.7 - 300.0, 3), "z": round((rn % 17) * 2.1 + ai * 0.4, 3), "occ": 1.0, "b": 20.0,
                                 "element": nm[0], "charge": None, "model": 1})
        ctx = {"atoms": len(rows), "path": path}
    else:
        s = gen3d.load(case["file"])
        rows = emit.rows_from_structure(s)
        path = case["path"]
        ctx = {"file": case["file"], "path": path}
        if path not in ("pdb-pdb", "pdb-cif-pdb") and any(not (r["chain"] or "").strip() for r in rows):
            rec.skip("roundtrip." + path, "blank-chain")
            return
    if not emit.fits_pdb(rows):
        rec.skip("roundtrip." + path, "outside-PDB-limits")
        return
    rec.mark_nontrivial(len(rows) >= 2)
    # every third case goes through the other documented kinds of input / output objects
    io_kinds = None
    hsh = int(core.chash(ctx)[:6], 16)
    if hsh % 3 == 0:
        io_kinds = [(IN_KINDS[(hsh >> (4 * k + 2)) % 4], OUT_KINDS[(hsh >> (4 * k + 4)) % 4]) for k in range(3)]
        ctx = dict(ctx, io=io_kinds)
    _cur["ctx"] = ctx
    try:
        via_fit = (hsh >> 3) % 2 == 0 and path != "pdb-pdb"
        if via_fit:
            ctx = dict(ctx, via="fit_to_pdb")
            _cur["ctx"] = ctx
        got = roundtrip(rows, path, io_kinds, via_fit)
    except Exception as e:
        import traceback

        tb = traceback.extract_tb(e.__traceback__)
        rec.violation("roundtrip.no-crash", {"ctx": ctx, "exception": repr(e)[:300], "tb": [f"{f.filename.split('/')[-1]}:{f.lineno}:{f.name}" for f in tb[-3:]]}, mechanism=f"crash:{type(e).__name__}")
        return
    diff = compare(rows, got)
    mech = None
    if diff is not None and diff[1] == "charge" and diff[3] is None and path in ("pdb-cif-pdb", "cif-pdb-cif"):
        mech = "formal-charge-lost-on-cross-path"
    rec.check("roundtrip." + path, diff is None, lambda: {"ctx": ctx, "first-difference": {"row": diff[0], "field": diff[1], "want": diff[2], "got": diff[3]},
                                                          "abstract-row": rows[diff[0]] if isinstance(diff[0], int) else None}, mechanism=mech)


def _splitter(case, rec):
    import contextlib
    import shutil
    import sys
    from rnapolis import splitter

    d = tempfile.mkdtemp(prefix="vmon-c09-")
    old = sys.argv
    _cur["ctx"] = {"splitter": case}
    try:
        sys.argv = ["splitter", "-o", d, "-f", case["format"], os.path.join(core.REPO, case["file"])]
        buf = io.StringIO()
        try:
            with contextlib.redirect_stdout(buf), contextlib.redirect_stderr(buf):
                splitter.main()
        except SystemExit:
            pass
        except Exception as e:
            rec.violation("splitter.no-crash", {"case": case, "exception": repr(e)[:300]}, mechanism=f"crash:{type(e).__name__}")
            return
        outs = sorted(os.listdir(d))
        rec.mark_nontrivial(len(outs) > 0)
        if "Error" in buf.getvalue():
            rec.violation("splitter.no-error-message", {"case": case, "output": buf.getvalue()[-400:]}, mechanism="splitter-reports-error")
            return
        ok = len(outs) > 0
        probs = []
        for fn in outs:
            text = open(os.path.join(d, fn)).read()
            if fn.endswith(".pdb"):
                probs += [p[1] for p in pdbfmt.check_document(text)][:2]
        rec.check("splitter.layout", ok and not probs, lambda: {"case": case, "files": outs[:4], "problems": probs[:4]})
    finally:
        sys.argv = old
        shutil.rmtree(d, ignore_errors=True)


def classify(v):
    return v.get("mechanism")
