"""C03 - reported base pairs are geometrically justified, edge-exclusive and maximal."""
from vmon import mon3d, work3d

ID = "C03"
LEVEL = "exploration"
RULE = (
    "cases: every readable corpus structure; perturbed corpus (random rigid motions up to 500 A, the 24 axis permutations, Gaussian "
    "jitter 0.01-0.2 A, residue thinning, atom thinning incl. N1/C6/N9/C1', isotropic scaling); two-residue placements where a real "
    "residue pair is pulled/twisted/tilted/slid so that contact distance, contact-normal angles and the cis/trans torsion sweep "
    "across their thresholds; exactly translated copies. annotator.find_pairs is monitored; every reported pair and every candidate "
    "edge combination is judged by a dense O(n^2) evaluator with margins (1e-6 => undecided). Non-trivial = the execution reported "
    "at least one interaction; distinct = canonical JSON hash of the case descriptor."
)
ASSUMPTIONS = ["frozen donor/acceptor/edge tables and thresholds (4.0 A, 50-130 deg) in vmon/oracles/g3d.py are the specification",
               "base normal = cross product of (N9,N7,N3) for A/G and (N1,C4,O2) otherwise", "Residue3D.one_letter_name is trusted"]
REQUIRED_MONITORS = ["annotator.find_pairs"]
REQUIRED_CLAUSES = ["pairs.two-distinct-contacts", "pairs.cis-trans", "pairs.edge-exclusive", "pairs.maximal", "pairs.distinct-residues"]
LANDMARKS = {
    "angle-filter": ("find_pairs", "hydrogen_bonds.append((atom_i, atom_j, residue_i, residue_j))"),
    "count-below-2": ("find_pairs", "if hydrogen_bond_count < 2:"),
    "edge-occupied": ("find_pairs", "if (residue_i, edge_i) in occupied:"),
    "cis-trans-none": ("detect_cis_trans", "return None"),
}


def setup(rec, reach):
    mon3d.attach(rec, reach, {"C03"})


def cases(shard, nshards, seed, tier):
    return work3d.cases(ID, shard, nshards, seed, tier)


def _call(s, model):
    from rnapolis import annotator

    try:
        p, a, b = annotator.find_pairs(s, model)
        return len(p) + len(a) + len(b)
    except Exception:
        return 1


def run_case(case, rec):
    work3d.run_case(ID, case, rec, _call)


def classify(v):
    return v.get("mechanism")
