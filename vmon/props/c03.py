"""C03 - reported base pairs are geometrically justified, edge-exclusive and maximal."""
from vmon import mon3d, work3d

ID = "C03"
LEVEL = "exploration"
RULE = (
    "cases: every readable corpus structure; perturbed corpus (random rigid motions up to 500 A, the 24 axis permutations, Gaussian "
    "jitter 0.01-0.2 A, residue thinning, atom thinning incl. N1/C6/N9/C1', isotropic scaling); two-residue placements where a real "
    "residue pair is pulled/twisted/tilted/slid so that contact distance, contact-normal angles and the cis/trans torsion sweep "
    "across their thresholds; exactly translated copies. annotator.find_pairs is monitored; every reported pair and every candidate "
    "edge combination is judged by a dense O(n^2) evaluator with margins (1e-6 => undecided). Non-trivial = the execution reported "
    "at least one interaction; distinct = canonical JSON hash of the case descriptor."
)
ASSUMPTIONS = ["frozen donor/acceptor/edge tables and thresholds (4.0 A, 50-130 deg) in vmon/oracles/g3d.py are the specification",
               "base normal = cross product of (N9,N7,N3) for A/G and (N1,C4,O2) otherwise", "Residue3D.one_letter_name is trusted"]
REQUIRED_MONITORS = ["annotator.find_pairs"]
REQUIRED_CLAUSES = ["pairs.two-distinct-contacts", "pairs.cis-trans", "pairs.edge-exclusive", "pairs.maximal", "pairs.distinct-residues"]
LANDMARKS = {
    "angle-filter": ("find_pairs", "hydrogen_bonds.append((atom_i, atom_j, residue_i, residue_j))"),
    "count-below-2": ("find_pairs", "if hydrogen_bond_count < 2:"),
    "edge-occupied": ("find_pairs", "if (residue_i, edge_i) in occupied:"),
    "cis-trans-none": ("detect_cis_trans", "return None"),
}


_state = {"rec": None}


def setup(rec, reach):
    _state["rec"] = rec
    mon3d.attach(rec, reach, {"C03"})


def cases(shard, nshards, seed, tier):
    return work3d.cases(ID, shard, nshards, seed, tier)


def _call(s, model):
    from rnapolis import annotator

    try:
        p, a, b = annotator.find_pairs(s, model)
    except Exception:
        return 1
    # one model asked for in a structure that holds several: the pairs of the judged call are also what the public
    # entry points built on it report for that model (the base-interaction lists and the full 2D analysis)
    rec = _state["rec"]
    if rec is not None and model is not None and len({r.model for r in s.residues}) > 1:
        want = {(repr(x.nt1), repr(x.nt2), x.lw.value) for x in p}
        for name, f in (("extract_base_interactions", lambda: annotator.extract_base_interactions(s, model).basePairs),
                        ("extract_secondary_structure", lambda: annotator.extract_secondary_structure(s, model)[0].baseInteractions.basePairs)):
            try:
                got = {(repr(x.nt1), repr(x.nt2), x.lw.value) for x in f()}
            except Exception as e:
                rec.undecided("pairs.entry-points-report-the-requested-model", f"{name} raised {type(e).__name__}")
                continue
            rec.check("pairs.entry-points-report-the-requested-model", got == want,
                      lambda: {"entry-point": name, "model": model, "models-in-structure": sorted({r.model for r in s.residues})[:12], "only-there": sorted(got - want)[:4], "only-in-find_pairs": sorted(want - got)[:4], "counts": [len(got), len(want)]})
    return len(p) + len(a) + len(b)


def run_case(case, rec):
    work3d.run_case(ID, case, rec, _call)


def classify(v):
    return v.get("mechanism")
