"""C13 - dot-bracket generation survives every solver configuration and fault.

Fault/config injection at the PuLP API boundary, the only surface the library
touches: pulp.HiGHS_CMD (availability + instance), pulp.LpSolverDefault, and
the solver object's actualSolve()."""
import random

from vmon import core, gen2d, mon2d
from vmon.oracles import o2d

ID = "C13"
LEVEL = "fault_enumeration"
CONFIGS = ["highs", "cbc", "none"]
# ok-sparse: an optimal answer whose zero-valued variables are left unset or carry 1e-12 noise (solution files that
# list non-zero columns only); notsolved-incumbent: "not solved" with a feasible, non-optimal incumbent loaded and the
# solution status saying "integer feasible" (a run stopped by a limit)
BEHAVIOURS = ["ok", "raise", "notsolved", "infeasible", "unbounded", "undefined", "ok-sparse", "notsolved-incumbent"]
ENTRIES = ["getter", "convert"]
RULE = (
    "the matrix {HiGHS-stub, CBC} x {ok, raises PulpSolverError, status NotSolved/Infeasible/Unbounded/Undefined} plus the "
    "no-solver configuration (13 cells) x {property getter, convert_to_dot_bracket(solver)} is enumerated completely for every "
    "knotted structure of the hostile list and for random knotted structures; pk-free controls must never reach the solver. "
    "Each execution is judged for: no exception, lossless encoding, == own first-fit FCFS text when the solver did not deliver "
    "an optimum, == exact optimum objective when it did. Non-trivial = knotted structure x faulty cell; distinct = canonical "
    "JSON hash of (structure, cell, entry point)."
)
ASSUMPTIONS = [
    "HiGHS is not installed: the 'highs' configuration is a stub class satisfying the PuLP solver interface that delegates to the real CBC",
    "faults are injected by wrapping the solver's actualSolve / by setting problem status after a real solve",
]
REQUIRED_CLAUSES = ["fault.no-exception", "fault.lossless", "fault.equals-fcfs", "ok.optimal", "control.solver-not-called"]
LANDMARKS = {
    "solver-is-None": ("BpSeq.convert_to_dot_bracket", "if solver is None:"),
    "except-PulpSolverError": ("BpSeq.convert_to_dot_bracket", "POA: failed to solve problem using MILP approach"),
    "status-not-optimal": ("BpSeq.convert_to_dot_bracket", "POA: problem is infeasible, fallback to FCFS"),
    "highs-selected": ("BpSeq.dot_bracket", "solver = pulp.HiGHS_CMD()"),
    "default-selected": ("BpSeq.dot_bracket", "solver = pulp.LpSolverDefault"),
}
_cur = {}


def setup(rec, reach):
    from rnapolis import common

    _cur["rec"] = rec
    B = common.BpSeq
    for name in ("dot_bracket", "convert_to_dot_bracket", "fcfs"):
        if name in B.__dict__:  # private helpers may be refactored away: the reach map then simply has no entry for them
            reach.add(B.__dict__[name], f"BpSeq.{name}")


def cells():
    out = []
    for cfg in ("highs", "cbc"):
        for beh in BEHAVIOURS:
            out.append((cfg, beh))
    out.append(("none", "ok"))
    return out


def cases(shard, nshards, seed, tier):
    k = 0

    def mine():
        nonlocal k
        k += 1
        return (k - 1) % nshards == shard

    structs = []
    for name, n, pairs in gen2d.hostile():
        if name in ("ladder30", "ladder12", "empty"):
            continue
        structs.append(("hostile", n, pairs))
    nrand = 50 if tier == "quick" else 2000
    for i in range(nrand):
        rng = random.Random(f"{seed}:C13:r:{i}")
        n, pairs = gen2d.random_stems(rng, rng.randint(2, 6), maxlen=rng.choice([1, 3, 6]), spacer=(0, 2), shape=rng.choice([None, "ladder", "chain"]))
        structs.append(("random", n, pairs))
    # the notation asked for through the 3D mapping (one text per strand, optionally with gap placeholders),
    # under every cell of the matrix
    for fn in ("tests/1E7K_1_C.cif", "tests/1ehz-assembly-1.cif", "tests/488d.pdb", "tests/4qln.cif"):
        for gaps in (False, True):
            for cfg, beh in cells():
                if mine():
                    yield {"family": "from-3d", "file": fn, "ops": [], "gaps": gaps, "config": cfg, "behaviour": beh}
    # what the command-line tool prints on stdout is the notation and nothing else, whatever the logging level
    # (the real CBC child process runs for knotted inputs; fresh interpreter, real file descriptors)
    for fn in ("tests/1ehz-assembly-1.cif", "tests/1E7K_1_C.cif"):
        if mine():
            yield {"family": "cli-stdout-under-loglevel", "file": fn}
    # every knotted pairing of up to 8 nucleotides through the fall-back path (first-come-first-served text is the
    # specification there): no back-end, and a back-end that raises
    for n8 in range(4, 9):
        for pairs in gen2d.matchings(n8):
            if len(pairs) < 2:
                continue
            crossing = any(a < c < b < d or c < a < d < b for (a, b) in pairs for (c, d) in pairs)
            if not crossing:
                continue
            for cfg, beh in (("none", "ok"), ("cbc", "raise")):
                if mine():
                    yield {"family": "exhaustive-fallback", "n": n8, "pairs": pairs, "config": cfg, "behaviour": beh, "entry": "getter"}
    # more levels than there are digits: 11 and 12 mutually crossing stems (orders 10 and 11 exist) under every cell
    for kk in (11, 12):
        pairs = sorted((s_ + 1, kk + s_ + 1) for s_ in range(kk))
        for cfg, beh in cells():
            for entry in ENTRIES:
                if mine():
                    yield {"family": "more-than-ten-levels", "n": 2 * kk, "pairs": pairs, "config": cfg, "behaviour": beh, "entry": entry}
    # hundreds of regions open at once under a crossing stem: the first-come-first-served text of the fall-back paths
    for depth in (257, 300) + ((600,) if tier != "quick" else ()):
        name, n, pairs = gen2d.deep_nest_under_a_crossing_stem(depth)
        for cfg, beh in (("none", "ok"), ("cbc", "raise"), ("cbc", "notsolved")):
            for entry in ENTRIES:
                if mine():
                    yield {"family": "deep-nesting", "n": n, "pairs": pairs, "config": cfg, "behaviour": beh, "entry": entry}
    for fam, n, pairs in structs:
        for cfg, beh in cells():
            for entry in ENTRIES:
                if mine():
                    yield {"family": fam, "n": n, "pairs": pairs, "config": cfg, "behaviour": beh, "entry": entry}


class _Inject:
    """Context manager installing one (configuration, behaviour) cell."""

    def __init__(self, cfg, beh):
        self.cfg, self.beh = cfg, beh
        self.calls = 0

    def _faulty(self, real_solver_factory):
        import pulp

        inj = self

        def actualSolve(self_solver, lp, **kw):
            inj.calls += 1
            if inj.beh == "raise":
                raise pulp.PulpSolverError("vmon: injected solver failure")
            status = real_solver_factory().actualSolve(lp, **kw)
            if inj.beh == "ok":
                return status
            if inj.beh == "ok-sparse":
                for k, v in enumerate(lp.variables()):
                    if v.varValue is not None and abs(v.varValue) < 0.5:
                        v.varValue = None if k % 2 else 1e-12
                return status
            if inj.beh == "notsolved-incumbent":
                # swap the two lowest orders of every region: still a proper assignment, no longer the optimal one
                by = {v.name: v for v in lp.variables()}
                for name, v in list(by.items()):
                    parts = name.split("_")
                    if len(parts) == 3 and parts[0] == "x" and parts[2] == "0" and f"x_{parts[1]}_1" in by:
                        w = by[f"x_{parts[1]}_1"]
                        v.varValue, w.varValue = w.varValue, v.varValue
                lp.assignStatus(pulp.LpStatusNotSolved)
                lp.sol_status = pulp.LpSolutionIntegerFeasible
                return pulp.LpStatusNotSolved
            code = {
                "notsolved": pulp.LpStatusNotSolved,
                "infeasible": pulp.LpStatusInfeasible,
                "unbounded": pulp.LpStatusUnbounded,
                "undefined": pulp.LpStatusUndefined,
            }[inj.beh]
            # a solver that gave up: no usable variable values, status set
            for v in lp.variables():
                v.varValue = None
            lp.assignStatus(code)
            return code

        return actualSolve

    def __enter__(self):
        import pulp

        core.SolverWatch.injecting += 1
        self.saved = (pulp.HiGHS_CMD, pulp.LpSolverDefault)
        real_cbc = lambda: pulp.PULP_CBC_CMD(msg=False)
        RealCBC = pulp.PULP_CBC_CMD
        faulty = self._faulty(real_cbc)

        class StubHiGHS(pulp.LpSolver_CMD):
            name = "HiGHS_CMD"

            def __init__(s, *a, **k):
                super().__init__(*a, **k)

            def defaultPath(s):
                return "highs"

            def available(s):
                return self.cfg == "highs"

            actualSolve = faulty

        class FaultyCBC(RealCBC):
            actualSolve = faulty

        pulp.HiGHS_CMD = StubHiGHS
        if self.cfg == "none":
            pulp.LpSolverDefault = None
        else:
            pulp.LpSolverDefault = FaultyCBC(msg=False)
        self.explicit = None if self.cfg == "none" else (StubHiGHS() if self.cfg == "highs" else FaultyCBC(msg=False))
        return self

    def __exit__(self, *a):
        import pulp

        pulp.HiGHS_CMD, pulp.LpSolverDefault = self.saved
        core.SolverWatch.injecting -= 1


def run_case(case, rec):
    if case["family"] == "from-3d":
        from vmon.props import c01

        case = dict(case, cell=f"{case['config']}/{case['behaviour']}")
        with _Inject(case["config"], case["behaviour"]):
            c01._from_3d(case, rec, clause="from3d.lossless-under-fault")
        return
    if case["family"] == "cli-stdout-under-loglevel":
        return _cli_loglevel(case, rec)
    n, pairs = case["n"], [tuple(p) for p in case["pairs"]]
    cfg, beh, entry = case["config"], case["behaviour"], case["entry"]
    b = mon2d.make_bpseq(n, pairs)
    f = mon2d.facts(mon2d.snapshot(b))
    faulty = beh not in ("ok", "ok-sparse") or cfg == "none"
    rec.mark_nontrivial(f["knotted"] and faulty)
    cell = f"{cfg}/{beh}/{entry}"
    det = lambda extra=None: {"n": n, "pairs": pairs, "cell": cell, "info": extra}
    derived_first = entry == "convert" and int(core.chash(case)[:2], 16) % 2 == 0
    if derived_first:
        # a derived structure is asked for first, while the back-end is still healthy (the source computes and keeps
        # its optimal notation on the way); under the cell the source must still answer for its own pairs
        try:
            b.without_isolated()
            rec.count("note:derived-structure-requested-first")
        except Exception:
            pass
    with _Inject(cfg, beh) as inj:
        try:
            if entry == "getter":
                res = b.dot_bracket
            else:
                res = b.convert_to_dot_bracket(inj.explicit)
        except Exception as e:
            d = mon2d.crash_detail(e, f, cell)
            where = d["tb"][-1] if d["tb"] else "?"
            rec.violation("fault.no-exception", det(d), mechanism=f"raises:{type(e).__name__}")
            return
    rec.ok("fault.no-exception")
    rec.count(f"cell:{cfg}/{beh}")
    st = getattr(res, "structure", None)
    dec, why = o2d.decode(st) if isinstance(st, str) else (None, "no structure")
    lossless = dec is not None and set(dec) == set(pairs) and o2d.same_level_crossing(dec) is None and getattr(res, "sequence", None) == f["seq"]
    if not rec.check("fault.lossless", lossless, lambda: det({"structure": st, "why": why})):
        return
    if not f["knotted"]:
        rec.check("control.solver-not-called", inj.calls == 0, lambda: det({"solver-calls": inj.calls}))
        return
    fl = o2d.fcfs_levels(f["reg"])
    fcfs_text = _text(f, fl)
    if faulty:
        rec.check("fault.equals-fcfs", st == fcfs_text, lambda: det({"got": st, "fcfs": fcfs_text}))
        if cfg != "none":
            rec.check("fault.solver-was-called", inj.calls == 1, lambda: det({"solver-calls": inj.calls}))
    else:
        lev = [min(dec[p] for p in s) for s in f["stems"]]
        try:
            best = o2d.optimum(f["reg"], f["g"])
        except o2d.Budget:
            rec.undecided("ok.optimal", "reference-budget")
            return
        val = sum((1 if l == 0 else -l) for l in dec.values())
        rec.check("ok.optimal", val == best, lambda: det({"objective": val, "optimum": best, "structure": st}))
        rec.check("ok.solver-was-called", inj.calls == 1, lambda: det({"solver-calls": inj.calls}))


def _cli_loglevel(case, rec):
    import os
    import subprocess
    import sys
    import tempfile

    path = os.path.join(core.REPO, case["file"])
    outs = {}
    rec.mark_nontrivial(True)
    for level in (None, "INFO", "DEBUG"):
        env = dict(os.environ, VERIF_REPO=core.REPO, PYTHONHASHSEED="0")
        env.pop("LOGLEVEL", None)
        if level:
            env["LOGLEVEL"] = level
        cwd = tempfile.mkdtemp(prefix="vmon-c13-")
        try:
            p = subprocess.run([sys.executable, "-m", "vmon.launch", "annotator", path], cwd=cwd, env=env, capture_output=True, text=True, timeout=600)
        finally:
            import shutil

            shutil.rmtree(cwd, ignore_errors=True)
        outs[level or "unset"] = (p.returncode, p.stdout)
    det = lambda extra=None: {"file": case["file"], "info": extra}
    base = outs["unset"][1]
    lines = [l for l in base.split("\n") if l and not l.startswith(">")]
    st = "".join(lines[1::2])
    dec, why = o2d.decode(st)
    rec.check("cli.stdout-is-a-balanced-notation", outs["unset"][0] == 0 and dec is not None and len("".join(lines[0::2])) == len(st), lambda: det({"why": why, "stdout": base[:300]}))
    bad = {k: v[1][:400] for k, v in outs.items() if v[1] != base or v[0] != 0}
    rec.check("cli.stdout-same-under-every-loglevel", not bad, lambda: det({"differs-for": sorted(bad), "first-lines": {k: v.splitlines()[:4] for k, v in bad.items()}}))
    rec.count("cli-loglevel-runs", 3)


def _text(f, lev):
    s = ["."] * f["n"]
    for stem, l in zip(f["stems"], lev):
        for i, j in stem:
            s[i - 1] = o2d.OPEN[l]
            s[j - 1] = o2d.CLOSE[l]
    return "".join(s)


def aggregate(m, results, seed, tier):
    # fault-matrix completeness: every cell must have been observed
    missing = [f"{c}/{b}" for c, b in cells() if m["monitor_calls"].get(f"cell:{c}/{b}", 0) == 0]
    if not m["viol_keys"]:
        pass
    m["extra"].append({"cells_observed": {k[5:]: v for k, v in m["monitor_calls"].items() if k.startswith("cell:")}, "cells_missing": missing})
    # cells are only counted for executions that returned; if a cell is
    # missing and nothing was violated the matrix was not fully enumerated
    return [f"fault-cell-never-observed:{c}" for c in missing] if not m["n_violations"] else []


def classify(v):
    return v.get("mechanism")
