"""C16 - the all-dot-brackets list is exactly the set of greedy-stable assignments."""
import random

from vmon import core, gen2d, mon2d
from vmon.oracles import o2d

ID = "C16"
LEVEL = "exploration"
RULE = (
    "cases: every partial matching of 1..N (N<=8 quick, <=10 thorough), hostile list, random knotted structures whose "
    "conflict components have <=6 (quick) / <=8 (thorough) stems, groups of exactly eight stems (clique, chain, random), sparse groups of nine "
    "stems (chains; one ten-stem chain in the thorough tier), multi-component structures; BpSeq.all_dot_brackets is "
    "monitored and its decoded level assignments compared as a set with an independent back-tracking enumeration of Grundy "
    "colourings. Non-trivial = pseudoknotted (>=1 conflict edge); distinct = canonical JSON hash."
)
ASSUMPTIONS = ["Grundy-colouring enumerator vmon/oracles/o2d.py:grundy", "CBC as default solver for the 'contains the optimum' clause"]
REQUIRED_MONITORS = ["BpSeq.all_dot_brackets"]
REQUIRED_CLAUSES = ["all.equals-grundy-set", "all.no-repeats", "all.contains-fcfs", "all.contains-optimal", "all.pkfree-single-round"]
LANDMARKS = {
    "components": ("BpSeq.all_dot_brackets", "components[-1].append(next_vertex)"),
    "greedy-permutation": ("BpSeq.all_dot_brackets", "orders[permutation[i]] = order"),
    "product": ("BpSeq.all_dot_brackets", "self.__make_dot_bracket(regions, orders)"),
    "pk-free-exit": ("BpSeq.all_dot_brackets", "return [self.fcfs]"),
}
_cur = {}
# largest group of crossing stems driven through the library: it enumerates k! stem
# orders (9! = 362 880, about 7 s; 10! about 80 s - one case in the thorough tier)
MAXCOMP = 10


def _levels(f, st):
    dec, why = o2d.decode(st)
    if dec is None or set(dec) != set(map(tuple, f["pairs"])):
        return None
    lev = []
    for s in f["stems"]:
        ls = {dec[p] for p in s}
        if len(ls) != 1:
            return None
        lev.append(ls.pop())
    return tuple(lev)


def _post(snap, result, exc, args, kwargs):
    rec = _cur["rec"]
    f = mon2d.facts(snap)
    if f is None or not mon2d.levels_ok(f):
        rec.skip("all.equals-grundy-set", "out-of-domain")
        return
    if max((len(c) for c in o2d.components(f["g"])), default=0) > MAXCOMP:
        rec.skip("all.equals-grundy-set", f"component>{MAXCOMP}")
        return
    if exc is not None:
        rec.violation("all.no-crash", mon2d.crash_detail(exc, f, "all_dot_brackets"), mechanism=f"crash:{type(exc).__name__}")
        return
    det = lambda extra=None: {"pairs": f["pairs"], "n": f["n"], "got": [getattr(d, "structure", None) for d in result][:12], "info": extra}
    if not rec.check("all.is-list", isinstance(result, list), det):
        return
    levs = [_levels(f, getattr(d, "structure", "")) for d in result]
    if not rec.check("all.members-lossless", None not in levs, det):
        return
    rec.check("all.no-repeats", len(set(levs)) == len(levs), det)
    try:
        want = o2d.grundy(f["reg"], f["g"])
    except o2d.Budget:
        rec.undecided("all.equals-grundy-set", "reference-budget")
        want = None
    if want is not None:
        got = set(levs)
        rec.check("all.equals-grundy-set", got == want, lambda: det({"missing": sorted(want - got)[:5], "extra": sorted(got - want)[:5], "stems": f["reg"]}))
    rec.check("all.contains-fcfs", tuple(o2d.fcfs_levels(f["reg"])) in set(levs), det)
    if not f["knotted"]:
        rec.check("all.pkfree-single-round", len(result) == 1 and set(result[0].structure) <= set("()."), det)
    _cur["last"] = (snap, set(levs), f)


def _pre_self(args, kwargs):
    return mon2d.snapshot(args[0])


def setup(rec, reach):
    from rnapolis import common

    _cur["rec"] = rec
    B = common.BpSeq
    core.wrap(B, "all_dot_brackets", rec, post=_post, pre=_pre_self, label="BpSeq.all_dot_brackets")
    for name in ("all_dot_brackets", "_BpSeq__make_dot_bracket"):
        if name in B.__dict__:  # private helpers may be refactored away: the reach map then simply has no entry for them
            reach.add(B.__dict__[name], f"BpSeq.{name.replace('_BpSeq', '')}")


def cases(shard, nshards, seed, tier):
    k = 0

    def mine():
        nonlocal k
        k += 1
        return (k - 1) % nshards == shard

    nmax = 8 if tier == "quick" else 10
    for n in range(0, nmax + 1):
        for pairs in gen2d.matchings(n):
            if mine():
                yield {"family": "exhaustive", "n": n, "pairs": pairs}
    for name, n, pairs in gen2d.hostile():
        if name in ("ladder30", "ladder12"):
            continue
        if mine():
            yield {"family": "hostile", "name": name, "n": n, "pairs": pairs}
    # the upper edge of the domain: one group of exactly 8 crossing stems (8! orders inside the library)
    k8 = [("ladder8", 32, [(2 * i + 1, 16 + 2 * i + 1) for i in range(8)])]
    for t in range(5 if tier == "quick" else 40):
        rng = random.Random(f"{seed}:C16:k8:{t}")
        n8, p8 = gen2d.random_stems(rng, 8, maxlen=rng.choice([1, 2]), spacer=(0, 1), shape=rng.choice(["chain", None, None, "ladder"]))
        k8.append((f"eight-{t}", n8, p8))
    # three mutually crossing stems followed by a chain of five
    toks = [0, 1, 2, 0, 1, 3, 2, 4, 3, 5, 4, 6, 5, 7, 6, 7]
    pos, first, prs = 1, {}, []
    for tk in toks:
        if tk in first:
            prs.append((first[tk], pos))
        else:
            first[tk] = pos
        pos += 2
    k8.append(("triple-then-chain5", pos, sorted(prs)))
    for name, n, pairs in k8:
        if mine():
            yield {"family": "eight-stem-group", "name": name, "n": n, "pairs": pairs}
    name, n, pairs = gen2d.thousand_stems()
    if mine():
        yield {"family": "hostile", "name": name, "n": n, "pairs": pairs}
    # sparse groups of nine stems (9! stem orders; long runs of orders that add nothing new):
    # a chain, a star (one stem crossed by eight nested ones) and random sparse shapes
    k9 = []
    rng = random.Random(f"{seed}:C16:k9")
    k9.append(("chain9",) + gen2d.random_stems(rng, 9, maxlen=1, spacer=(0, 1), shape="chain"))
    k9.append(("chain9-long-stems",) + gen2d.random_stems(rng, 9, maxlen=3, spacer=(0, 2), shape="chain"))
    k9.append(("two-chains-4+5",) + _side_by_side(rng, [4, 5]))
    k9.append(("chain8",) + gen2d.random_stems(rng, 8, maxlen=2, spacer=(0, 1), shape="chain"))
    if tier != "quick":
        k9.append(("chain10",) + gen2d.random_stems(rng, 10, maxlen=1, spacer=(0, 0), shape="chain"))
        for t in range(6):
            k9.append((f"nine-{t}",) + gen2d.random_stems(rng, 9, maxlen=rng.choice([1, 2]), spacer=(0, 1), shape=rng.choice(["chain", None])))
    for name, n, pairs in k9:
        if mine():
            yield {"family": "nine-stem-group", "name": name, "n": n, "pairs": pairs}
    # the list as the 3D mapping prints it (one text per strand, with gap placeholders when asked for)
    from vmon import gen3d

    for fn in [f for f in gen3d.corpus_files() if f.endswith(("488d.pdb", "1ehz-assembly-1.cif", "4qln.cif", "1E7K_1_C.cif", "4WTI_1_T-P.cif", "8btk_B7.cif"))]:
        for variant, ops in enumerate(([], [], [{"op": "thin-res", "seed": f"{seed}:c16", "frac": 0.12}], [{"op": "thin-res", "seed": f"{seed}:c16b", "frac": 0.2}], [{"op": "reverse-res"}], [{"op": "split-chain", "tail": 3}])):
            if mine():
                yield {"family": "from-3d", "file": fn, "ops": ops, "gaps": variant != 0}
        # the same through the external-tool adapter (an FR3D listing of the structure's own pairs)
        for gaps in (False, True):
            if mine():
                yield {"family": "from-3d", "file": fn, "ops": [], "gaps": gaps, "route": "adapter"}
    nrand = 1200 if tier == "quick" else 20000
    cap = 6 if tier == "quick" else 8
    for i in range(nrand):
        if not mine():
            continue
        rng = random.Random(f"{seed}:C16:r:{i}")
        parts = []
        # 1-3 independent blocks laid side by side -> several components
        off = 0
        allp = []
        for blk in range(rng.randint(1, 3)):
            ns = rng.randint(2, cap if blk == 0 else 4)
            n, pairs = gen2d.random_stems(rng, ns, maxlen=rng.choice([1, 2, 4]), spacer=(0, rng.choice([0, 1, 3])), shape=rng.choice([None, None, "ladder", "chain"]))
            allp += [(a + off, b + off) for a, b in pairs]
            off += n
        yield {"family": "random-knotted", "n": off, "pairs": sorted(allp)}


def _side_by_side(rng, sizes):
    off, allp = 0, []
    for ns in sizes:
        n, pairs = gen2d.random_stems(rng, ns, maxlen=2, spacer=(0, 1), shape="chain")
        allp += [(a + off, b + off) for a, b in pairs]
        off += n
    return off, sorted(allp)


def _from_3d(case, rec):
    """Mapping2D3D.all_dot_brackets: joined over the strands, the printed notations must be exactly the
    members of the BPSEQ's own list (judged against the enumerator by the monitor in the same execution)."""
    from rnapolis import annotator, tertiary
    from vmon import gen3d

    s = gen3d.load(case["file"])
    if case["ops"]:
        s = gen3d.apply_ops(s, case["ops"])
    det = lambda extra=None: {"file": case["file"], "ops": case["ops"], "gaps": case["gaps"], "route": case.get("route", "Mapping2D3D"), "info": extra}
    try:
        bi = annotator.extract_base_interactions(s)
        if case.get("route") == "adapter":
            import os
            import tempfile

            from rnapolis import adapter

            def unit(r):
                a = r.auth
                return "|".join(["XXXX", "1", a.chain, a.name, str(a.number)] + (["", "", a.icode] if a.icode else []))

            if any(p.nt1.auth is None or p.nt2.auth is None for p in bi.basePairs):
                rec.skip("mapping.list-is-the-bpseq-list", "label-only residues have no FR3D unit id")
                return
            fd, path = tempfile.mkstemp(suffix=".txt", prefix="vmon-c16-")
            with os.fdopen(fd, "w") as fh:
                for p in bi.basePairs:
                    fh.write(f"{unit(p.nt1)}\t{p.lw.value}\t{unit(p.nt2)}\t0\n")
            try:
                s2d, dbs, m = adapter.process_external_tool_output(s, path, adapter.ExternalTool.FR3D, None, case["gaps"], True)
            finally:
                os.remove(path)
            b = m.bpseq
            texts = list(dbs)
        else:
            m = tertiary.Mapping2D3D(s, bi.basePairs, bi.stackings, case["gaps"])
            b = m.bpseq
            texts = None
        f = mon2d.facts(mon2d.snapshot(b))
        if f is None or max((len(c) for c in o2d.components(f["g"])), default=0) > 8:
            rec.skip("mapping.list-is-the-bpseq-list", "bpseq outside the domain / group > 8 stems")
            return
        rec.mark_nontrivial(f["knotted"])
        if texts is None:
            texts = list(m.all_dot_brackets)
        own = [d.structure for d in b.all_dot_brackets]
    except Exception as e:
        rec.violation("mapping.no-crash", det(repr(e)[:300]), mechanism=f"crash:{type(e).__name__}")
        return
    seq = "".join(e.sequence for e in b.entries)
    joined = []
    bad = None
    for t in texts:
        lines = [l for l in t.split("\n") if l and not l.startswith(">")]
        sq, st = "".join(lines[0::2]), "".join(lines[1::2])
        if sq != seq or len(st) != len(seq) or any(len(a) != len(b_) for a, b_ in zip(lines[0::2], lines[1::2])) or len(lines) % 2:
            # (every strand's structure line is as long as its sequence line)
            bad = {"text": t[:300], "bpseq-sequence": seq[:150]}
        joined.append(st)
    rec.check("mapping.members-have-the-bpseq-sequence", bad is None, lambda: det(bad))
    rec.check("mapping.list-is-the-bpseq-list", sorted(joined) == sorted(own) and len(set(joined)) == len(joined),
              lambda: det({"printed": sorted(joined)[:4], "bpseq-list": sorted(own)[:4]}))


def run_case(case, rec):
    if case["family"] == "from-3d":
        return _from_3d(case, rec)
    n, pairs = case["n"], [tuple(p) for p in case["pairs"]]
    b = mon2d.make_bpseq(n, pairs)
    f = mon2d.facts(mon2d.snapshot(b))
    rec.mark_nontrivial(f["knotted"])
    comp = max((len(c) for c in o2d.components(f["g"])), default=0)
    if comp > MAXCOMP or (comp > 8 and case.get("family") != "nine-stem-group"):
        rec.skip("all.equals-grundy-set", "component>8")
        return
    try:
        size = o2d.grundy_product_size(f["reg"], f["g"])
    except o2d.Budget:
        size = None
    if size is None or size > 60000:
        # the list is the cartesian product over components: several large groups make it
        # (and the library's own memory use) explode - a reach limit, not a verdict
        rec.skip("all.equals-grundy-set", "expected-list-larger-than-60000")
        return
    _cur["last"] = None
    try:
        b.all_dot_brackets
    except Exception:
        return
    last = _cur.get("last")
    if last is None:
        return
    if f["knotted"] and comp <= 7 and int(core.chash(case)[6:8], 16) % 4 == 0:
        # the structure read from a dot-bracket text that uses the LETTER brackets (first-come-first-served levels raised
        # by 3 to 9: the alphabet runs ( [ { < A B C D E ...): the list must be that of the structure written
        from rnapolis import common

        fl = o2d.fcfs_levels(f["reg"])
        for up in (3, 6, 9):
            lev = [l + up for l in fl]
            if max(lev) >= 29:
                continue
            st = ["."] * n
            opening, closing = "([{<ABCDEFGHIJKLMNOPQRSTUVWXYZ", ")]}>abcdefghijklmnopqrstuvwxyz"
            for stem, l in zip(f["stems"], lev):
                for i_, j_ in stem:
                    st[i_ - 1], st[j_ - 1] = opening[l], closing[l]
            text = "".join(st)
            try:
                res = common.BpSeq.from_dotbracket(common.DotBracket.from_string(f["seq"], text)).all_dot_brackets
            except Exception as e:
                rec.violation("text.no-crash", {"notation": text, "exception": repr(e)[:200]}, mechanism=f"crash:{type(e).__name__}:letter-brackets")
                continue
            got = {_levels(f, getattr(d, "structure", "")) for d in res}
            rec.check("text.list-is-the-list-of-the-structure-written", got == last[1], lambda: {"layout": "dot-bracket with letter brackets", "notation": text, "pairs": pairs, "got": [d.structure for d in res][:6], "want-count": len(last[1])})
    if f["knotted"] and comp <= 7 and int(core.chash(case)[4:6], 16) % 5 == 0:
        # the structure read from its BPSEQ text in the layouts other programs write: the list must be that of the
        # structure written (judged against the original's enumeration)
        from rnapolis import common
        from vmon import gen2d

        for name, tv in gen2d.bpseq_text_variants(str(b)):
            try:
                res = common.BpSeq.from_string(tv).all_dot_brackets
            except Exception as e:
                rec.violation("text.no-crash", {"layout": name, "text": tv[:200], "exception": repr(e)[:200]}, mechanism=f"crash:{type(e).__name__}:text-layout")
                continue
            got = {_levels(f, getattr(d, "structure", "")) for d in res}
            rec.check("text.list-is-the-list-of-the-structure-written", got == last[1], lambda: {"layout": name, "pairs": pairs, "n": n, "got": [d.structure for d in res][:6], "want-count": len(last[1])})
    # "contains the optimal notation": the library's own chosen notation
    try:
        opt = mon2d.make_bpseq(n, pairs).dot_bracket
    except Exception as e:
        rec.undecided("all.contains-optimal", f"dot_bracket raised {type(e).__name__}")
        return
    lv = _levels(f, opt.structure)
    rec.check("all.contains-optimal", lv in last[1], lambda: {"pairs": pairs, "n": n, "optimal": opt.structure, "all": sorted(last[1])[:10]})


def classify(v):
    return v.get("mechanism")
