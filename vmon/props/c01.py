"""C01 - BPSEQ <-> dot-bracket conversion is lossless for every encoder."""
import random

from vmon import core, gen2d, mon2d
from vmon.oracles import o2d

ID = "C01"
LEVEL = "exploration"
RULE = (
    "cases: every partial matching of 1..N (N<=8 quick, <=10 thorough) + random stem-built structures "
    "(nested/crossing/ladder/chain shapes, N up to 400) + hostile list + random balanced dot-bracket strings over "
    "up to 30 bracket types + multi-strand texts; each is pushed through the real encoders/decoders with "
    "postcondition monitors attached. Non-trivial = structure has at least one base pair; distinct = canonical JSON hash of the case."
)
ASSUMPTIONS = [
    "reference bracket decoder and crossing test in vmon/oracles/o2d.py",
    "MILP back-end as installed (CBC)",
]
EXHAUSTIVE = {"quick": False, "thorough": False}
REQUIRED_MONITORS = ["BpSeq.dot_bracket", "BpSeq.fcfs", "BpSeq.all_dot_brackets", "BpSeq.from_dotbracket", "BpSeq.from_string", "MultiStrandDotBracket.from_string"]
REQUIRED_CLAUSES = ["optimal.pairs", "fcfs.pairs", "all.pairs", "from_dotbracket.pairs", "roundtrip.pairs", "from_string.identity", "multistrand.tiling"]
LANDMARKS = {
    "fcfs-conflict": ("BpSeq.fcfs", "available[orders[j]] = False"),
    "milp-readback": ("BpSeq.convert_to_dot_bracket", "orders[i] = order"),
    "all-permutations": ("BpSeq.all_dot_brackets", "unique[-1].add"),
    "decoder-pop": ("DotBracket.__post_init__", "self.pairs.append"),
}

_cur = {}


def _post_encoder(prefix, what, many=False):
    def post(snap, result, exc, args, kwargs):
        rec = _cur["rec"]
        f = mon2d.facts(snap)
        if f is None or not mon2d.levels_ok(f):
            rec.skip(f"{prefix}.pairs", "out-of-domain")
            return
        if exc is not None:
            rec.violation(f"{prefix}.no-crash", mon2d.crash_detail(exc, f, what), mechanism=f"crash:{type(exc).__name__}:{what}")
            return
        if many:
            if not rec.check(f"{prefix}.is-list", isinstance(result, list) and len(result) >= 1, {"what": what, "pairs": f["pairs"]}):
                return
            for db in result:
                mon2d.judge_lossless(rec, prefix, f, db, what)
        else:
            mon2d.judge_lossless(rec, prefix, f, result, what)

    return post


def _pre_self(args, kwargs):
    return mon2d.snapshot(args[0])


def _pre_from_dbn(args, kwargs):
    db = args[0]
    return (db.sequence, db.structure)


def _post_from_dbn(snap, result, exc, args, kwargs):
    rec = _cur["rec"]
    seq, st = snap
    dec, why = o2d.decode(st)
    if dec is None or len(seq) != len(st):
        rec.skip("from_dotbracket.pairs", "unbalanced-input")
        return
    if exc is not None:
        rec.violation("from_dotbracket.no-crash", {"exception": repr(exc), "structure": st}, mechanism=f"crash:{type(exc).__name__}:from_dotbracket")
        return
    got = mon2d.snapshot(result)
    ok, pairs = mon2d.domain(got)
    det = lambda: {"structure": st, "entries": got[:40]}
    if not rec.check("from_dotbracket.valid-bpseq", ok, det):
        return
    rec.check("from_dotbracket.pairs", set(pairs) == set(dec), det)
    rec.check("from_dotbracket.sequence", "".join(c for _, c, _ in got) == seq, det)


def _pre_from_string(args, kwargs):
    return args[0]


def _post_from_string(snap, result, exc, args, kwargs):
    rec = _cur["rec"]
    want = _cur.get("from_string_expect")
    if want is None or snap != want[0]:
        return
    if exc is not None:
        rec.violation("from_string.no-crash", {"exception": repr(exc)}, mechanism="crash:from_string")
        return
    rec.check("from_string.identity", mon2d.snapshot(result) == want[1], lambda: {"text": snap[:300], "got": mon2d.snapshot(result)[:20]})


def _post_multistrand(snap, result, exc, args, kwargs):
    rec = _cur["rec"]
    want = _cur.get("ms_expect")
    if want is None:
        return
    if exc is not None:
        rec.violation("multistrand.no-crash", {"exception": repr(exc), "text": snap}, mechanism="crash:multistrand")
        return
    seqs, sts = want
    det = lambda: {"text": snap, "strands": [(s.first, s.last, s.sequence, s.structure) for s in result.strands]}
    good = result.sequence == "".join(seqs) and result.structure == "".join(sts) and len(result.strands) == len(seqs)
    pos = 1
    for s, a, b in zip(result.strands, seqs, sts):
        good = good and s.first == pos and s.last == pos + len(a) - 1 and s.sequence == a and s.structure == b
        pos += len(a)
    rec.check("multistrand.tiling", good, det)


def setup(rec, reach):
    from rnapolis import common

    _cur["rec"] = rec
    B = common.BpSeq
    core.wrap(B, "dot_bracket", rec, post=_post_encoder("optimal", "dot_bracket"), pre=_pre_self, label="BpSeq.dot_bracket")
    core.wrap(B, "fcfs", rec, post=_post_encoder("fcfs", "fcfs"), pre=_pre_self, label="BpSeq.fcfs")
    core.wrap(B, "all_dot_brackets", rec, post=_post_encoder("all", "all_dot_brackets", many=True), pre=_pre_self, label="BpSeq.all_dot_brackets")
    core.wrap(B, "convert_to_dot_bracket", rec, post=_post_encoder("convert", "convert_to_dot_bracket"), pre=_pre_self, label="BpSeq.convert_to_dot_bracket")
    core.wrap(B, "from_dotbracket", rec, post=_post_from_dbn, pre=_pre_from_dbn, label="BpSeq.from_dotbracket")
    core.wrap(B, "from_string", rec, post=_post_from_string, pre=_pre_from_string, label="BpSeq.from_string")
    core.wrap(common.MultiStrandDotBracket, "from_string", rec, post=_post_multistrand, pre=_pre_from_string, label="MultiStrandDotBracket.from_string")
    for name in ("dot_bracket", "fcfs", "all_dot_brackets", "convert_to_dot_bracket", "from_dotbracket", "_BpSeq__make_dot_bracket", "_BpSeq__stems_entries", "_BpSeq__regions"):
        if name in B.__dict__:  # private helpers may be refactored away: the reach map then simply has no entry for them
            reach.add(B.__dict__[name], f"BpSeq.{name.replace('_BpSeq', '')}")
    if "__post_init__" in common.DotBracket.__dict__:
        reach.add(common.DotBracket.__post_init__, "DotBracket.__post_init__")


def cases(shard, nshards, seed, tier):
    k = 0

    def mine():
        nonlocal k
        k += 1
        return (k - 1) % nshards == shard

    nmax = 8 if tier == "quick" else 10
    for n in range(0, nmax + 1):
        for pairs in gen2d.matchings(n):
            if mine():
                yield {"family": "exhaustive", "n": n, "pairs": pairs}
    for name, n, pairs in gen2d.hostile():
        if mine():
            yield {"family": "hostile", "name": name, "n": n, "pairs": pairs}
    nrand = 2000 if tier == "quick" else 40000
    for i in range(nrand):
        if not mine():
            continue
        rng = random.Random(f"{seed}:C01:r:{i}")
        shape = rng.choice([None, None, None, "ladder", "nested", "chain"])
        ns = rng.randint(1, 7 if shape is None else 12)
        n, pairs = gen2d.random_stems(rng, ns, maxlen=rng.choice([1, 2, 6]), spacer=(0, rng.choice([0, 1, 4])), shape=shape)
        yield {"family": "random-stems", "n": n, "pairs": pairs, "seq": gen2d.seq_for(n, rng)}
    # every member of the list for a group of nine crossing stems (9! stem orders inside the library, ~7 s)
    for t, shape in enumerate(["chain", "chain"] if tier == "quick" else ["chain", "chain", None, None]):
        rng = random.Random(f"{seed}:C01:nine:{t}")
        n9, p9 = gen2d.random_stems(rng, 9, maxlen=rng.choice([1, 2]), spacer=(0, 1), shape=shape)
        if mine():
            yield {"family": "nine-stem-group", "n": n9, "pairs": p9}
    nbig = 30 if tier == "quick" else 600
    for i in range(nbig):
        if not mine():
            continue
        rng = random.Random(f"{seed}:C01:big:{i}")
        n, pairs = gen2d.random_stems(rng, rng.randint(8, 40), maxlen=6, spacer=(0, 4), shape="nested" if rng.random() < 0.5 else None)
        if n <= 400:
            yield {"family": "random-large", "n": n, "pairs": pairs, "noall": True}
    ndb = 2000 if tier == "quick" else 20000
    for i in range(ndb):
        if not mine():
            continue
        rng = random.Random(f"{seed}:C01:dbn:{i}")
        n = rng.randint(2, 80)
        nt = rng.choice([1, 2, 3, 4, 6, 10, 30])
        st = gen2d.random_dotbracket(rng, n, nt)
        yield {"family": "dotbracket", "sequence": gen2d.seq_for(n, rng), "structure": st}
    # every encoder output must stay lossless when the MILP back-end gives up
    # (shared injection layer with C13): a few knotted structures x bad statuses
    knotted = [(n, p) for name, n, p in gen2d.hostile() if name in ("H-type", "kissing", "triple-cross", "triangle-short-first", "pk-multiloop", "ladder5")]
    for n, pairs in knotted:
        for cfg in ("cbc", "highs", "none"):
            for beh in ("raise", "notsolved", "infeasible", "unbounded", "undefined"):
                if cfg == "none" and beh != "raise":
                    continue
                if mine():
                    yield {"family": "solver-fault", "n": n, "pairs": pairs, "config": cfg, "behaviour": "ok" if cfg == "none" else beh}
    # ... and every knotted pairing of up to 8 nucleotides (every conflict-graph shape on four stems) when the back-end
    # raises or reports "not solved"
    for n8 in range(4, 9):
        for pairs in gen2d.matchings(n8):
            if len(pairs) >= 2 and any(a < c < b < d or c < a < d < b for (a, b) in pairs for (c, d) in pairs):
                for beh in ("raise", "notsolved"):
                    if mine():
                        yield {"family": "solver-fault", "n": n8, "pairs": pairs, "config": "cbc", "behaviour": beh}
    # dot-brackets the library derives from 3D structures (Mapping2D3D): one text per strand; structures whose
    # residue order is hostile (a chain that is not contiguous, chains out of order, reversed list, insertion codes)
    from vmon import gen3d

    for fn in [f for f in gen3d.corpus_files() if f.endswith(("488d.pdb", "4WTI_1_T-P.cif", "1DFU_1_M-N.cif", "1JJP.cif", "1ehz-assembly-1.cif", "4qln.cif", "1E7K_1_C.cif"))]:
        for variant, ops in enumerate(([], [], [{"op": "split-chain", "tail": 3}], [{"op": "chain-order", "seed": "c01", "mode": "reverse"}], [{"op": "reverse-res"}], [{"op": "icodes", "seed": "c01", "frac": 0.6}],
                                 [{"op": "thin-res", "seed": "c01", "frac": 0.15}], [], [{"op": "thin-res", "seed": "c01b", "frac": 0.2}, {"op": "reverse-res"}])):
            # (the last one with gap detection: residues missing from a chain whose numbers run DOWN the list)
            if mine():
                yield {"family": "from-3d", "file": fn, "ops": ops, "gaps": variant % 2 == 0}
    nms = 200 if tier == "quick" else 3000
    for i in range(nms):
        if not mine():
            continue
        rng = random.Random(f"{seed}:C01:ms:{i}")
        strands = []
        if i % 2:
            # one balanced notation cut into strands: pairs between strands, strands that begin with a closing
            # bracket (also with '>', the closing bracket of the fourth level, which is the header character too)
            ncut = rng.randint(2, 5)
            n = rng.randint(ncut, 60)
            whole = gen2d.random_dotbracket(rng, n, rng.choice([2, 4, 4, 6]))
            if i % 4 == 1 and n >= 6:
                # a duplex on the fourth level: <<<.. / >>>..
                h = n // 2
                m = min(3, h - 1)
                whole = "<" * m + "." * (h - m) + ">" * m + "." * (n - h - m)
                cuts = [h]
            else:
                cuts = sorted(rng.sample(range(1, n), ncut - 1))
            seq = gen2d.seq_for(n, rng, placeholders=False)
            prev = 0
            for s_, c in enumerate(cuts + [n]):
                strands.append([rng.random() < 0.5 and f">strand_{s_}" or None, seq[prev:c], whole[prev:c]])
                prev = c
        else:
            for s in range(rng.randint(1, 5)):
                n = rng.randint(1, 30)
                strands.append([rng.random() < 0.5 and f">strand_{s}" or None, gen2d.seq_for(n, rng, placeholders=False), gen2d.random_dotbracket(rng, n, rng.choice([1, 2, 4]))])
        yield {"family": "multistrand", "strands": strands}


def _from_3d(case, rec, clause="from3d.lossless"):
    """Per-strand dot-bracket texts derived from a 3D structure: joined over the strands they must have the
    BPSEQ's sequence and length, use the bracket alphabet only, be balanced and decode to the BPSEQ's pairs."""
    from rnapolis import annotator, tertiary
    from vmon import gen3d

    s = gen3d.load(case["file"])
    if case["ops"]:
        s = gen3d.apply_ops(s, case["ops"])
    det = lambda extra=None: {"file": case["file"], "ops": case["ops"], "gaps": case["gaps"], "info": extra}
    try:
        bi = annotator.extract_base_interactions(s)
        m = tertiary.Mapping2D3D(s, bi.basePairs, bi.stackings, case["gaps"])
        b = m.bpseq
        texts = [("dot_bracket", m.dot_bracket)] + [("all_dot_brackets", t) for t in m.all_dot_brackets]
    except Exception as e:
        rec.violation(clause.split(".")[0] + ".no-crash", det(repr(e)[:300]), mechanism=f"crash:{type(e).__name__}")
        return
    ok_dom, pairs = mon2d.domain(mon2d.snapshot(b))
    rec.mark_nontrivial(bool(pairs))
    if not ok_dom:
        rec.skip(clause, "bpseq outside the domain (judged by C06)")
        return
    want_seq = "".join(e.sequence for e in b.entries)
    for what, text in texts:
        lines = [l for l in text.split("\n") if l and not l.startswith(">")]
        seq, st = "".join(lines[0::2]), "".join(lines[1::2])
        dec, why = o2d.decode(st)
        ok = seq == want_seq and len(st) == len(want_seq) and set(st) <= o2d.ALPHABET and dec is not None and set(dec) == set(pairs) and o2d.same_level_crossing(dec) is None
        rec.check(clause, ok, lambda: det({"what": what, "why": why, "text": text[:400], "bpseq-sequence": want_seq[:200], "cell": case.get("cell")}))


def _max_component(f):
    return max((len(c) for c in o2d.components(f["g"])), default=0)


def run_case(case, rec):
    from rnapolis import common

    fam = case["family"]
    if fam == "dotbracket":
        seq, st = case["sequence"], case["structure"]
        dec, _ = o2d.decode(st)
        rec.mark_nontrivial(bool(dec))
        db = common.DotBracket.from_string(seq, st)
        b = common.BpSeq.from_dotbracket(db)
        # and back: pairs preserved (the encoder monitor judges the output
        # against b's entries; here the composed round trip is judged)
        try:
            back = b.dot_bracket
        except Exception as e:
            return  # already recorded by the encoder monitor
        d2, why = o2d.decode(back.structure)
        rec.check("roundtrip.pairs", d2 is not None and set(d2) == set(dec), lambda: {"in": st, "out": back.structure})
        # a notation object is a value: decoding the SAME object again (the caller's, and the one the library
        # produced) is judged by the from_dotbracket monitor like the first time
        for obj in (db, back, back):
            try:
                common.BpSeq.from_dotbracket(obj)
            except Exception:
                pass
        rec.count("note:same-notation-object-decoded-again")
        return
    if fam == "multistrand":
        parts = []
        for hdr, seq, st in case["strands"]:
            if hdr:
                parts.append(hdr)
            parts += [seq, st]
        text = "\n".join(parts) + "\n"
        texts = [text]
        if int(core.chash(case)[:2], 16) % 3 == 0:
            # structure lines followed by blanks or a tab, and no newline after the last line
            nhdr = [i for i, p_ in enumerate(parts)]
            st_lines = set()
            k = 0
            for hdr, seq, st in case["strands"]:
                k += (1 if hdr else 0) + 2
                st_lines.add(k - 1)
            texts.append("\n".join(p_ + ("  " if i in st_lines and i % 2 else "\t" if i in st_lines else "") for i, p_ in enumerate(parts)) + "\n")
            texts.append("\n".join(parts))
            rec.count("note:multistrand-text-variants")
        rec.mark_nontrivial(any(set(s[2]) - {"."} for s in case["strands"]))
        for tv in texts:
            _cur["ms_expect"] = ([s[1] for s in case["strands"]], [s[2] for s in case["strands"]])
            try:
                common.MultiStrandDotBracket.from_string(tv)
            except Exception:
                pass
            finally:
                _cur["ms_expect"] = None
        return
    if fam == "from-3d":
        return _from_3d(case, rec)
    n, pairs = case["n"], [tuple(p) for p in case["pairs"]]
    rec.mark_nontrivial(len(pairs) > 0)
    if fam == "solver-fault":
        from vmon.props import c13

        b = mon2d.make_bpseq(n, pairs)
        with c13._Inject(case["config"], case["behaviour"]) as inj:
            for entry in ("getter", "convert"):
                try:
                    if entry == "getter":
                        mon2d.make_bpseq(n, pairs).dot_bracket
                    else:
                        b.convert_to_dot_bracket(inj.explicit)
                except Exception:
                    pass  # recorded by the encoder monitors (crash rule)
        return
    b = mon2d.make_bpseq(n, pairs, case.get("seq"))
    f = mon2d.facts(mon2d.snapshot(b))
    # queries that must not disturb the encoders: consumed before them on a share of the cases
    h = int(core.chash(case)[:2], 16)
    if h % 3 == 0:
        list(b.paired())
    elif h % 3 == 1:
        any(True for _ in b.paired(only5to3=True))
        b.sequence
    for attr in ("fcfs", "dot_bracket", "all_dot_brackets"):
        if attr == "dot_bracket" and _max_component(f) > 14:
            rec.skip("optimal.pairs", "component>14-stems:CBC-too-slow")
            continue
        if attr == "all_dot_brackets" and (case.get("noall") or _max_component(f) > (9 if case.get("family") == "nine-stem-group" else 7)):
            continue
        try:
            getattr(b, attr)
        except Exception:
            pass  # recorded by the monitor (crash rule)
    # the notation objects the encoders handed out (cached on b) are decoded, twice each, on half of the cases
    if h % 2 == 0:
        for attr in ("fcfs", "dot_bracket"):
            if attr in vars(b) or attr == "fcfs":
                try:
                    obj = getattr(b, attr) if not (attr == "dot_bracket" and _max_component(f) > 14) else None
                except Exception:
                    obj = None
                if obj is not None:
                    for _ in range(2):
                        try:
                            common.BpSeq.from_dotbracket(obj)
                        except Exception:
                            pass
    # a produced notation written to a dot-bracket file (with and without a header line) and read back: the reader must
    # hand back the sequence and the structure exactly as written (lower-case residue letters and the lower-case closing
    # brackets of the letter levels included), and decoding it gives the structure's pairs (judged by the monitor)
    if h % 5 == 0:
        from vmon import emit

        for attr in ("fcfs", "dot_bracket"):
            if attr == "dot_bracket" and _max_component(f) > 14:
                continue
            try:
                d = getattr(b, attr)
            except Exception:
                continue
            for header in (">strand_A\n", ""):
                path = emit.scratch_path(".dbn")
                with open(path, "w") as fh:
                    fh.write(f"{header}{d.sequence}\n{d.structure}\n")
                try:
                    back = common.DotBracket.from_file(path)
                    common.BpSeq.from_dotbracket(back)
                except Exception as e:
                    rec.violation("file.no-crash", {"written": d.structure, "exception": repr(e)[:200]}, mechanism=f"crash:{type(e).__name__}:from_file")
                    continue
                rec.check("file.reads-back-what-was-written", back.sequence == d.sequence and back.structure == d.structure,
                          lambda: {"written": [d.sequence[:80], d.structure[:80]], "read": [back.sequence[:80], back.structure[:80]], "header": bool(header)})
    # text round trip
    snap = mon2d.snapshot(b)
    text = str(b)
    variants = [text]
    if h % 4 == 3:
        # the same lines as other programs and editors leave them: Windows line endings, trailing blanks / tabs,
        # no final newline, blank lines at the end
        lines = text.splitlines()
        variants += ["\r\n".join(lines) + "\r\n", "\n".join(l + ("  " if i % 2 else "\t") for i, l in enumerate(lines)) + "\n", "\n".join(lines), "\n".join(lines) + "\n\n\n"]
        rec.count("note:bpseq-text-variants")
    for tv in variants:
        _cur["from_string_expect"] = (tv, snap)
        try:
            common.BpSeq.from_string(tv)
        except Exception:
            pass
        finally:
            _cur["from_string_expect"] = None


def classify(v):
    return v.get("mechanism")
