"""C19 - external-tool output is imported totally and faithfully."""
import itertools
import json
import os
import random
import re
import tempfile

from vmon import core

ID = "C19"
LEVEL = "exploration"
RULE = (
    "cases: (a) every label over the 20-symbol FR3D alphabet {c,t,C,T,w,h,s,W,H,S,n,a,B,P,R,0,1,3,5,9} up to length 4 (168 420 "
    "labels; thorough adds lengths 5-6 over {c,t,W,H,S,w,s,n,a,3,5}) through unify_classification; (b) generated FR3D listings "
    "mixing valid, near-valid and malformed lines (icodes, negative numbers, comments, blank lines, missing fields, non-numeric "
    "numbers) through parse_fr3d_output; (c) DSSR JSON documents generated from real residue full_names of corpus structures with "
    "valid/invalid/odd LW strings, model prefixes, unresolvable names and multi-model wrappers through parse_dssr_output. "
    "Oracles: regular-expression definition of the label language; unit-id grammar; resolvable-name set. Non-trivial = label "
    "batch / listing / document contains at least one recognised interaction; distinct = canonical JSON hash."
)
ASSUMPTIONS = [
    "label language: LW = ^n?[cCtT][wWhHsS]{2}a?$, stacking = ^s(33|35|53|55)$ (s33 downward, s55 upward, s35 outward, s53 inward), ^[0-9]BPh$, ^[0-9]BR$, else other",
    "labels where an n prefix / a suffix on a non-LW label would be recognised after stripping are undecided (the text is silent)",
    "non-ASCII labels that only Unicode case mapping turns into an LW label (long s) are undecided; Unicode digits are not digits of the label language",
    "well-formed unit id: >=5 '|'-separated fields with field 5 matching ^-?[0-9]+$; strings only Python's liberal int() accepts are undecided",
]
REQUIRED_MONITORS = ["adapter.unify_classification", "adapter.parse_fr3d_output", "adapter.parse_dssr_output", "adapter.parse_unit_id"]
REQUIRED_CLAUSES = ["label.class", "fr3d.interactions", "fr3d.no-exception", "dssr.pairs", "dssr.stacks", "unitid.residue"]
LANDMARKS = {
    "n-prefix": ("unify_classification", "fr3d_name = fr3d_name[1:]"),
    "a-suffix": ("unify_classification", "fr3d_name = fr3d_name[:-1]"),
    "lw-keyerror": ("unify_classification", "except KeyError:"),
    "unknown-br-digit": ("unify_classification", "Unknown base-ribose interaction"),
    "unknown-bph-digit": ("unify_classification", "Unknown base-phosphate interaction"),
    "line-error-contained": ("_process_interaction_line", "except (ValueError, IndexError) as e:"),
    "dssr-models": ("parse_dssr_output", 'dssr = dssr.get("models")[0].get("parameters", {})'),
}
_cur = {}

RE_LW = re.compile(r"^n?([cCtT])([wWhHsS])([wWhHsS])a?$")
RE_ST = re.compile(r"^s(33|35|53|55)$")
RE_BPH = re.compile(r"^([0-9])BPh$")
RE_BR = re.compile(r"^([0-9])BR$")
ST = {"33": "downward", "55": "upward", "35": "outward", "53": "inward"}
RE_INT = re.compile(r"^-?[0-9]+$")


def ref_label(label):
    """-> (category, class-name) or 'undecided'."""
    m = RE_LW.match(label)
    if m:
        return ("base-pair", m.group(1).lower() + m.group(2).upper() + m.group(3).upper())
    m = RE_ST.match(label)
    if m:
        return ("stacking", ST[m.group(1)])
    m = RE_BPH.match(label)
    if m:
        return ("base-phosphate", m.group(1) + "BPh")
    m = RE_BR.match(label)
    if m:
        return ("base-ribose", m.group(1) + "BR")
    # decorated non-LW labels: text is silent
    cands = {label}
    if label.startswith("n"):
        cands.add(label[1:])
    for c in list(cands):
        if c.endswith("a"):
            cands.add(c[:-1])
    cands.discard(label)
    for c in cands:
        if RE_ST.match(c) or RE_BPH.match(c) or RE_BR.match(c) or RE_LW.match(c):
            return "undecided"
    if not label.isascii():
        # "in any letter case": a non-ASCII character whose Unicode case mapping is an edge
        # letter (long s U+017F -> S) may or may not count as a case variant - the text is silent
        for v in (label.upper(), label.lower(), label.casefold(), label[:1].lower() + label[1:].upper()):
            for w in {v, v[1:] if v[:1] in "nN" else v}:
                for x in {w, w[:-1] if w[-1:] in "aA" else w}:
                    if RE_LW.match(x) or RE_LW.match(x[:1].lower() + x[1:].upper()):
                        return "undecided"
    return ("other", None)


def lib_class(res):
    cat, cls = res
    if cls is None:
        return (cat, None)
    return (cat, getattr(cls, "value", str(cls)))


def ref_unit_id(s):
    """-> (chain, number, icode, name) | None (malformed) | 'undecided'"""
    f = s.split("|")
    if len(f) < 5:
        return None
    if not RE_INT.match(f[4]):
        try:
            int(f[4])
        except ValueError:
            return None
        return "undecided"
    icode = f[7] if len(f) >= 8 and f[7] != "" else None
    return (f[2], int(f[4]), icode, f[3])


def ref_listing(text):
    """Expected interactions per category, in order; None entries = undecided."""
    out = []
    for raw in text.splitlines():
        line = raw.strip()
        if not line or line.startswith("#"):
            continue
        parts = line.split("\t")
        if len(parts) < 3:
            continue
        a, b = ref_unit_id(parts[0]), ref_unit_id(parts[2])
        if a is None or b is None:
            continue
        lab = ref_label(parts[1])
        if a == "undecided" or b == "undecided" or lab == "undecided":
            out.append(None)
            continue
        out.append((lab[0], lab[1], a, b))
    return out


def flat(bi):
    """Library BaseInteractions -> list of (cat, class, a, b) (per-category order)."""
    def r(x):
        return (x.auth.chain, x.auth.number, x.auth.icode, x.auth.name) if x.auth is not None else None

    out = []
    for p in bi.basePairs:
        out.append(("base-pair", p.lw.value, r(p.nt1), r(p.nt2)))
    for p in bi.stackings:
        out.append(("stacking", p.topology.value if p.topology is not None else None, r(p.nt1), r(p.nt2)))
    for p in bi.baseRiboseInteractions:
        out.append(("base-ribose", p.br.value if p.br is not None else None, r(p.nt1), r(p.nt2)))
    for p in bi.basePhosphateInteractions:
        out.append(("base-phosphate", p.bph.value if p.bph is not None else None, r(p.nt1), r(p.nt2)))
    for p in bi.otherInteractions:
        out.append(("other", None, r(p.nt1), r(p.nt2)))
    return out


# ---- monitors -------------------------------------------------------------
def _post_unify(snap, result, exc, args, kwargs):
    rec = _cur["rec"]
    label = snap
    if not isinstance(label, str):
        return
    want = ref_label(label)
    if exc is not None:
        rec.violation("label.no-exception", {"label": label, "exception": repr(exc)}, mechanism=f"crash:{type(exc).__name__}")
        return
    if want == "undecided":
        rec.undecided("label.class", "decorated-non-LW-label")
        return
    got = lib_class(result)
    rec.check("label.class", got == want, lambda: {"label": label, "got": got, "want": want})


def _post_unit(snap, result, exc, args, kwargs):
    rec = _cur["rec"]
    want = ref_unit_id(snap)
    if want == "undecided":
        rec.undecided("unitid.residue", "liberal-int")
        return
    if want is None:
        # malformed: must be refused with ValueError/IndexError (contained by the caller)
        rec.check("unitid.malformed-refused", exc is not None and isinstance(exc, (ValueError, IndexError)), lambda: {"unit": snap, "result": repr(result), "exc": repr(exc)})
        return
    if exc is not None:
        rec.violation("unitid.residue", {"unit": snap, "exception": repr(exc)}, mechanism=f"crash:{type(exc).__name__}")
        return
    a = result.auth
    rec.check("unitid.residue", result.label is None and (a.chain, a.number, a.icode, a.name) == want, lambda: {"unit": snap, "got": repr(result), "want": want})


def _pre_file(args, kwargs):
    path = args[0] if args else kwargs.get("file_path")
    try:
        with open(path) as f:
            return f.read()
    except Exception:
        return None


def _post_fr3d(snap, result, exc, args, kwargs):
    rec = _cur["rec"]
    if snap is None:
        return
    if exc is not None:
        rec.violation("fr3d.no-exception", {"exception": repr(exc), "text": snap[:600]}, mechanism=f"crash:{type(exc).__name__}")
        return
    rec.ok("fr3d.no-exception")
    want = ref_listing(snap)
    got = flat(result)
    if any(w is None for w in want):
        # undecided lines: compare only the decided multiset as a lower bound
        dec = [w for w in want if w is not None]
        missing = _multiset_minus(dec, got)
        rec.check("fr3d.decided-lines-present", not missing, lambda: {"missing": missing[:5], "text": snap[:600]})
        rec.undecided("fr3d.interactions", "listing contains undecided lines")
        return
    # per-category order must follow line order; categories are separate lists
    order = ["base-pair", "stacking", "base-ribose", "base-phosphate", "other"]
    want_sorted = [w for c in order for w in want if w[0] == c]
    rec.check("fr3d.interactions", got == want_sorted,
              lambda: {"missing": _multiset_minus(want_sorted, got)[:5], "extra": _multiset_minus(got, want_sorted)[:5], "text": snap[:800]})


def _multiset_minus(a, b):
    b = list(b)
    out = []
    for x in a:
        if x in b:
            b.remove(x)
        else:
            out.append(x)
    return out


LW_NAMES = {c + a + b for c in "ct" for a in "WHS" for b in "WHS"}


def _pre_dssr(args, kwargs):
    path = args[0]
    s3 = args[1]
    model = args[2] if len(args) > 2 else kwargs.get("model")
    try:
        doc = json.load(open(path))
    except Exception:
        return None
    names = [r.full_name for r in s3.residues]
    return (doc, names, model)


def _post_dssr(snap, result, exc, args, kwargs):
    rec = _cur["rec"]
    if snap is None:
        return
    doc, names, model = snap
    nameset = set(names)
    if exc is not None:
        mech = f"crash:{type(exc).__name__}"
        bad_lw = [p.get("LW") for p in _params(doc, model).get("pairs", []) if isinstance(p.get("LW"), str) and p.get("LW").startswith("__")]
        if isinstance(exc, KeyError) and bad_lw:
            mech = "dssr-LW-equals-enum-dunder-name:KeyError"
        rec.violation("dssr.no-exception", {"exception": repr(exc), "doc": json.dumps(doc)[:600]}, mechanism=mech)
        return
    params = _params(doc, model)

    def resolve(n):
        if n is None:
            return None
        n = n.split(":")[-1]
        return n if n in nameset else None

    want_pairs = []
    for p in params.get("pairs", []):
        a, b, lw = resolve(p.get("nt1")), resolve(p.get("nt2")), p.get("LW")
        if a is not None and b is not None and isinstance(lw, str) and lw in LW_NAMES:
            want_pairs.append((a, b, lw))
    got_pairs = [(p.nt1.full_name, p.nt2.full_name, p.lw.value) for p in result.basePairs]
    rec.check("dssr.pairs", got_pairs == want_pairs, lambda: {"got": got_pairs[:8], "want": want_pairs[:8], "doc": json.dumps(doc)[:600]})
    want_st = []
    for s in params.get("stacks", []):
        nts = [resolve(x) for x in s.get("nts_long", "").split(",")]
        for i in range(1, len(nts)):
            if nts[i - 1] is not None and nts[i] is not None:
                want_st.append((nts[i - 1], nts[i]))
    got_st = [(s.nt1.full_name, s.nt2.full_name) for s in result.stackings]
    rec.check("dssr.stacks", got_st == want_st, lambda: {"got": got_st[:8], "want": want_st[:8], "doc": json.dumps(doc)[:600]})
    members = {id(r) for r in args[1].residues}
    foreign = [x.full_name for p in list(result.basePairs) + list(result.stackings) for x in (p.nt1, p.nt2) if id(x) not in members]
    rec.check("dssr.residues-belong-to-structure", not foreign, lambda: {"not-from-this-structure": foreign[:6], "doc": json.dumps(doc)[:300]})
    rec.check("dssr.nothing-else", not (result.baseRiboseInteractions or result.basePhosphateInteractions or result.otherInteractions), lambda: {"doc": json.dumps(doc)[:300]})


def _params(doc, model):
    if "models" in doc:
        if model is None and doc.get("models"):
            return doc["models"][0].get("parameters", {})
        for r in doc.get("models", []):
            if r.get("model") == model:
                return r.get("parameters", {})
        return doc
    return doc


def setup(rec, reach):
    from rnapolis import adapter

    _cur["rec"] = rec
    core.wrap(adapter, "unify_classification", rec, post=_post_unify, pre=lambda a, k: a[0], label="adapter.unify_classification")
    core.wrap(adapter, "parse_unit_id", rec, post=_post_unit, pre=lambda a, k: a[0], label="adapter.parse_unit_id")
    core.wrap(adapter, "parse_fr3d_output", rec, post=_post_fr3d, pre=_pre_file, label="adapter.parse_fr3d_output")
    core.wrap(adapter, "parse_dssr_output", rec, post=_post_dssr, pre=_pre_dssr, label="adapter.parse_dssr_output")
    for n in ("unify_classification", "parse_unit_id", "_process_interaction_line", "parse_fr3d_output", "parse_dssr_output", "match_dssr_name_to_residue", "match_dssr_lw"):
        if hasattr(adapter, n):  # helpers that are not part of the public interface may be refactored away
            reach.add(getattr(adapter, n), n)


ALPHA = "ctCTwhsWHSnaBPR01359"
ALPHA2 = "ctWHSwsna35"
LABEL_BATCH = 2000


def _all_labels(tier):
    for L in range(1, 5):
        for t in itertools.product(ALPHA, repeat=L):
            yield "".join(t)
    if tier == "thorough":
        for L in (5, 6):
            for t in itertools.product(ALPHA2, repeat=L):
                yield "".join(t)
    # the complete documented vocabulary, explicitly
    for c in "ctCT":
        for a in "wWhHsS":
            for b in "wWhHsS":
                for pre in ("", "n"):
                    for suf in ("", "a"):
                        yield pre + c + a + b + suf
    for d in "0123456789":
        yield d + "BPh"
        yield d + "BR"
    for s in ("s33", "s35", "s53", "s55", "", "n", "a", "na", "perpendicular", "cWW ", " cWW", "cWB", "10BPh", "xBR"):
        yield s
    # characters str.isdigit() accepts but the label language does not: superscript, Arabic-Indic and
    # full-width digits, also inside LW / stacking labels; non-ASCII letters that upper()/lower() change
    for s in ("\u00b2BR", "\u0663BPh", "\uff13BPh", "\uff13BR", "\u00b3BPh", "n\u00b2BR", "\u00b2BRa", "s\uff135", "s3\u0665", "c\u1e9eW", "\u0131WW", "cW\u017f", "t\u212aH", "\u00dfWW"):
        yield s


def cases(shard, nshards, seed, tier):
    k = 0

    def mine():
        nonlocal k
        k += 1
        return (k - 1) % nshards == shard

    # label batches are described by (index range) to keep cases small
    total = sum(1 for _ in _all_labels(tier))
    for start in range(0, total, LABEL_BATCH):
        if mine():
            yield {"family": "label-batch", "start": start, "count": min(LABEL_BATCH, total - start)}
    nl = 200 if tier == "quick" else 5000
    for i in range(nl):
        if mine():
            yield {"family": "fr3d-listing", "i": i}
    if mine():
        yield {"family": "fr3d-corpus", "file": "tests/184D-fr3d.txt"}
    for cli_i in range(2 if tier == "quick" else 12):
        if mine():
            yield {"family": "adapter-cli", "k": cli_i}
    nd = 150 if tier == "quick" else 3000
    for i in range(nd):
        if mine():
            yield {"family": "dssr-doc", "i": i, "structure": ["tests/1A1T_1_B.cif", "tests/1E7K_1_C.cif", "tests/4qln.pdb", "tests/184D.cif"][i % 4]}


def _rand_unit(rng, good=True):
    chain = rng.choice(["A", "B", "A-2", "AA", "x", "1"])
    name = rng.choice(["A", "C", "G", "U", "DG", "DT", "PSU", "5MC", "2MG"])
    num = rng.choice([1, 5, 10, 117, 1999, 0, -3, -12])
    fields = ["1ABC", str(rng.choice([1, 2])), chain, name, str(num)]
    kind = rng.random()
    if kind < 0.25:
        fields += ["", "", rng.choice(["A", "B", ""])]  # atom, altloc, icode
    elif kind < 0.35:
        fields += ["", "", rng.choice(["A", ""]), "1_555"]
    if good:
        return "|".join(fields)
    bad = rng.choice(["short", "nonint", "nonint", "empty", "float", "short", "nonint", "float", "liberal"])
    if bad == "short":
        return "|".join(fields[: rng.randint(1, 4)])
    if bad == "nonint":
        fields[4] = rng.choice(["x", "12A", "", "--1", "1-"])
    if bad == "empty":
        return ""
    if bad == "float":
        fields[4] = "1.0"
    if bad == "liberal":
        fields[4] = rng.choice([" 7", "1_0", "+3", "٣"])
    return "|".join(fields)


def _rand_label(rng):
    r = rng.random()
    if r < 0.45:
        return rng.choice(["", "n"]) + rng.choice("ctCT") + rng.choice("wWhHsS") + rng.choice("wWhHsS") + rng.choice(["", "", "a"])
    if r < 0.6:
        return rng.choice(["s33", "s35", "s53", "s55"])
    if r < 0.75:
        return rng.choice("0123456789") + rng.choice(["BPh", "BR"])
    if r < 0.77:
        return rng.choice(["ns55", "s35a", "n0BPh", "n3BR"])
    return rng.choice(["perp", "cWB", "tXY", "s36", "10BPh", "BPh", "0bph", "cww2", "", "nn", "cWWaa", "S35", "?"])


def make_listing(rng, long=False):
    lines = []
    # long: a listing in which well over a hundred lines cannot be parsed (another program's log lines mixed in)
    for _ in range(rng.randint(0, 25) if not long else rng.randint(800, 1100)):
        r = rng.random()
        if r < 0.08:
            lines.append("# comment\tcWW\t" + _rand_unit(rng))
        elif r < 0.14:
            lines.append(rng.choice(["", "   ", "\t"]))
        elif r < 0.2:
            lines.append(_rand_unit(rng) + "\t" + _rand_label(rng))  # two fields only
        elif r < 0.32:
            lines.append(_rand_unit(rng, good=rng.random() < 0.5) + "\t" + _rand_label(rng) + "\t" + _rand_unit(rng, good=False) + "\t0")
        else:
            extra = rng.choice(["", "\t0", "\t1\textra"])
            lines.append(_rand_unit(rng) + "\t" + _rand_label(rng) + "\t" + _rand_unit(rng) + extra)
    return "\n".join(lines) + ("\n" if rng.random() < 0.8 else "")


_structs = {}


def _structure(rel):
    from rnapolis import parser

    if rel not in _structs:
        with open(os.path.join(core.REPO, rel)) as f:
            _structs[rel] = parser.read_3d_structure(f, 1)
    return _structs[rel]


def make_dssr(rng, names):
    def nm(ok=True):
        r = rng.random()
        if not ok or r < 0.12:
            return rng.choice(["Z.A999", "A.X1", "", "B.G/5", None])
        n = rng.choice(names)
        if r > 0.88:
            # near misses of a real name: another letter case, surrounding blanks, a missing or doubled separator -
            # unresolvable unless exactly such a residue exists (the monitor resolves names by exact match)
            n = rng.choice([n.lower(), n.upper(), n.swapcase(), " " + n, n + " ", n.replace(".", "", 1), n.replace(".", "..", 1), n[:-1] if len(n) > 3 else n + "0"])
        return (rng.choice(["", "1:", "2:"]) + n)

    def lw():
        r = rng.random()
        if r < 0.7:
            return rng.choice(sorted(LW_NAMES))
        return rng.choice(["cww", "CWW", "c.W", "--", "", None, "cW", "cWWa", "tSS ", "reverse", "name", "value", "__class__", "__doc__", "__members__"])

    params = {}
    if rng.random() < 0.95:
        params["pairs"] = [{"nt1": nm(), "nt2": nm(), "LW": lw(), "index": i} for i in range(rng.randint(0, 12))]
        for p in params["pairs"]:
            if rng.random() < 0.05:
                del p[rng.choice(["nt1", "nt2", "LW"])]
    if rng.random() < 0.9:
        params["stacks"] = [{"nts_long": ",".join(str(nm()) if nm() is not None else "" for _ in range(rng.randint(1, 6)))} for _ in range(rng.randint(0, 5))]
        if rng.random() < 0.1:
            params["stacks"].append({})
    r = rng.random()
    if r < 0.7:
        return params, None
    if r < 0.85:
        return {"models": [{"model": 1, "parameters": params}, {"model": 2, "parameters": {"pairs": [{"nt1": nm(), "nt2": nm(), "LW": "cWW"}]}}]}, None
    if r < 0.93:
        return {"models": [{"model": 1, "parameters": {"pairs": []}}, {"model": 2, "parameters": params}]}, 2
    # model numbers that are not 1..n in list order (a selection from an ensemble; the requested one listed first or last)
    other = {"pairs": [{"nt1": nm(), "nt2": nm(), "LW": "tHS"}]}
    if r < 0.97:
        return {"models": [{"model": 5, "parameters": other}, {"model": 2, "parameters": params}]}, 2
    return {"models": [{"model": 2, "parameters": other}, {"model": 5, "parameters": params}]}, 5


def run_case(case, rec):
    from rnapolis import adapter

    fam = case["family"]
    if fam == "label-batch":
        tier = os.environ.get("VERIF_TIER_EFFECTIVE", "quick")
        labels = itertools.islice(_all_labels(tier), case["start"], case["start"] + case["count"])
        nrec = 0
        for lab in labels:
            try:
                res = adapter.unify_classification(lab)
                if res[0] != "other":
                    nrec += 1
            except Exception:
                pass
        rec.mark_nontrivial(nrec > 0)
        rec.count("labels", case["count"])
        return
    if fam in ("fr3d-listing", "fr3d-corpus"):
        if fam == "fr3d-corpus":
            text = open(os.path.join(core.REPO, case["file"])).read()
        else:
            rng = random.Random(f"{os.environ.get('VERIF_SEED', '0')}:C19:l:{case['i']}")
            text = make_listing(rng, long=case["i"] % 23 == 7)
        want = ref_listing(text)
        rec.mark_nontrivial(any(w is not None and w[0] != "other" for w in want))
        # the tool's output file has one conventional name: every listing of this worker is written to the SAME path
        from vmon import emit

        path = emit.scratch_path(".fr3d.txt")
        with open(path, "w") as f:
            f.write(text)
        try:
            adapter.parse_fr3d_output(path)
        except Exception:
            pass
        return
    if fam == "adapter-cli":
        _adapter_cli(case, rec)
        return
    if fam == "dssr-doc":
        s3 = _structure(case["structure"])
        rng = random.Random(f"{os.environ.get('VERIF_SEED', '0')}:C19:d:{case['i']}")
        names = [r.full_name for r in s3.residues]
        doc, model = make_dssr(rng, names)
        # DSSR writes dssr.json whatever the input: every document of this worker goes to the SAME path
        from vmon import emit

        path = emit.scratch_path(".dssr.json")
        with open(path, "w") as f:
            json.dump(doc, f)
        try:
            res = adapter.parse_dssr_output(path, s3, model)
            rec.mark_nontrivial(len(res.basePairs) + len(res.stackings) > 0)
        except Exception:
            rec.mark_nontrivial(True)


def _adapter_cli(case, rec):
    """adapter.main in-process on a corpus structure + FR3D listing; the CSV it
    writes must list exactly the interactions the importer returned."""
    import contextlib
    import csv
    import io
    import shutil
    import sys
    from rnapolis import adapter

    rng = random.Random(f"{os.environ.get('VERIF_SEED', '0')}:C19:cli:{case['k']}")
    d = tempfile.mkdtemp(prefix="vmon-c19-")
    old = sys.argv
    try:
        if case["k"] == 0:
            ext = os.path.join(core.REPO, "tests/184D-fr3d.txt")
            text = open(ext).read()
        else:
            # listing over 184D residue names (chain A / A-2 as in the corpus listing)
            lines = []
            for _ in range(rng.randint(5, 30)):
                a, b = rng.sample(range(1, 7), 2)
                lab = _rand_label(rng)
                lines.append(f"XXXX|1|A|DG|{a}\t{lab}\tXXXX|1|A|DC|{b}\t0")
            text = "\n".join(lines) + "\n"
            ext = os.path.join(d, "ext.txt")
            open(ext, "w").write(text)
        want = [w for w in ref_listing(text)]
        rec.mark_nontrivial(any(w is not None and w[0] != "other" for w in want))
        pcsv = os.path.join(d, "o.csv")
        sys.argv = ["adapter", os.path.join(core.REPO, "tests/184D.cif"), "--external", ext, "--tool", "fr3d", "--csv", pcsv]
        buf = io.StringIO()
        try:
            with contextlib.redirect_stdout(buf):
                adapter.main()
        except Exception as e:
            rec.violation("cli.no-exception", {"case": case, "exception": repr(e)[:300]}, mechanism=f"crash:{type(e).__name__}")
            return
        if any(w is None for w in want):
            rec.undecided("cli.csv-lists-imported-interactions", "undecided lines")
            return
        rows = list(csv.reader(open(pcsv)))[1:]
        kinds = {"base-pair": "base pair", "stacking": "stacking", "base-phosphate": "base-phosphate interaction", "base-ribose": "base-ribose interaction", "other": "other interaction"}
        wantk = sorted((kinds[w[0]], w[1] or "") for w in want)
        gotk = sorted((r[2], r[3]) for r in rows)
        rec.check("cli.csv-lists-imported-interactions", gotk == wantk, lambda: {"case": case, "got": gotk[:8], "want": wantk[:8]})
    finally:
        sys.argv = old
        shutil.rmtree(d, ignore_errors=True)


def classify(v):
    return v.get("mechanism")
