"""C08 - structure reading preserves atoms, residue identity and the requested model."""
import math
import os
import random

from vmon import core, emit, gen3d, gentab

ID = "C08"
LEVEL = "exploration"
RULE = (
    "cases: (abstract atom table, format, requested model) with tables sampled field by field (1-5 models sharing residue "
    "identities, 1-4 chains incl. blank PDB chain, negative/zero numbers, insertion codes, HETATM groups, alternate locations with "
    "split occupancies, repeated names, atom pairs 0.2-0.3 A and 0.7-0.9 A apart, mmCIF null markers '?' and '.' for icode/alt-loc/"
    "charge/occupancy) emitted as PDB and as mmCIF by an independent emitter; corpus tables re-emitted; every model of the NMR "
    "ensembles; the corpus files themselves (mmCIF with entity / modified-residue categories, PDB with MODRES, gzip) against a table read by an "
    "independent tokenizer / column reader, with and without nucleic_acid_only. parser.read_3d_structure is monitored against the expected atom multiset computed from the abstract table. "
    "Non-trivial = table has >=2 atoms in the requested model; distinct = canonical JSON hash of the case descriptor."
)
ASSUMPTIONS = ["independent emitter vmon/emit.py (PDB column layout / mmCIF loop_)", "a dropped atom is justified by a same-name copy or a <0.5 A neighbour of occupancy >= its own; ties and null occupancies accept any survivor",
               "blank occupancy in PDB text is outside the stated domain"]
REQUIRED_MONITORS = ["parser.read_3d_structure"]
REQUIRED_CLAUSES = ["model.requested-only", "atoms.as-written", "atoms.each-once", "atoms.missing-justified", "atoms.best-copy-kept", "atoms.no-close-pair-kept", "residues.file-order"]
LANDMARKS = {
    "dup-replaced": ("filter_clashing_atoms", "unique_atoms[key] = atom"),
    "clash-discard": ("filter_clashing_atoms", "atoms_to_keep.discard(j)"),
    "pdb-model": ("parse_pdb", "model = int(line[10:14].strip())"),
    "cif-null-icode": ("parse_cif", "insertion_code = None"),
}
_cur = {}
TOL = 1e-9


def _ident(res, fmt):
    a = res.auth
    if a is None:
        # a file with label identifiers only (the auth_* items are optional in mmCIF)
        return (res.label.chain, res.label.number, None, res.label.name)
    return (a.chain, a.number, a.icode, a.name)


AUTH_COLS = ("auth_seq_id", "auth_comp_id", "auth_asym_id", "auth_atom_id")


def _neighbours(sel, cell):
    """near(i) -> indices of the rows in the 27 cells around row i (cells of `cell` A, so everything within `cell`)."""
    grid = {}
    key = lambda r: (math.floor(r["x"] / cell), math.floor(r["y"] / cell), math.floor(r["z"] / cell))
    for i, r in enumerate(sel):
        grid.setdefault(key(r), []).append(i)

    def near(i):
        cx, cy, cz = key(sel[i])
        for dx in (-1, 0, 1):
            for dy in (-1, 0, 1):
                for dz in (-1, 0, 1):
                    yield from grid.get((cx + dx, cy + dy, cz + dz), ())

    return near


def judge(rec, exp, structure, exc):
    rows, fmt, req, desc = exp["rows"], exp["fmt"], exp["model"], exp["desc"]
    models = []
    for r in rows:
        if r["model"] not in models:
            models.append(r["model"])
    M = req if req in models else models[0]
    sel = [r for r in rows if r["model"] == M]
    det = lambda extra=None: {"case": desc, "format": fmt, "requested-model": req, "expected-model": M, "info": extra}
    if exc is not None:
        mech = f"crash:{type(exc).__name__}"
        rec.violation("read.no-crash", det(repr(exc)[:300]), mechanism=mech)
        return
    def rowkey(r):
        return (r["chain"], r["resseq"], r["icode"], r["resname"], r["name"], r["x"], r["y"], r["z"], r["occ"])
    index = {}
    for i, r in enumerate(sel):
        index.setdefault(rowkey(r), []).append(i)
    other = {}
    for r in rows:
        if r["model"] != M:
            other.setdefault(rowkey(r), r["model"])
    used = set()
    got_rows = []  # indices into sel in returned order
    wrong_model = None
    foreign = None
    twice = None
    order_res = []
    for res in structure.residues:
        ident = _ident(res, fmt)
        if not order_res or order_res[-1] != (ident, res.model):
            order_res.append((ident, res.model))
        if res.model != M:
            wrong_model = (ident, res.model)
        for a in res.atoms:
            k = (ident[0], ident[1], ident[2], ident[3], a.name, a.x, a.y, a.z, a.occupancy)
            cands = index.get(k)
            if not cands:
                if k in other:
                    wrong_model = (ident, a.name, "coordinates of model", other[k])
                else:
                    foreign = {"residue": ident, "atom": a.name, "xyz": [a.x, a.y, a.z], "occ": a.occupancy}
                continue
            free = [c for c in cands if c not in used]
            if not free:
                twice = (ident, a.name)
                continue
            used.add(free[0])
            got_rows.append(free[0])
            if a.model != M:
                wrong_model = (ident, a.name, "atom.model", a.model)
    mech = "other-model-returned" if wrong_model else None
    rec.check("model.requested-only", wrong_model is None, lambda: det({"wrong": wrong_model, "models-in-file": models}), mechanism=mech)
    if wrong_model:
        return
    rec.check("atoms.as-written", foreign is None, lambda: det({"not-in-file": foreign}), mechanism=_foreign_mech(foreign))
    rec.check("atoms.each-once", twice is None, lambda: det({"twice": twice}))
    if foreign or twice:
        return
    kept = set(got_rows)
    # same (residue identity, name) kept twice?
    seen = {}
    dupkept = None
    for i in got_rows:
        r = sel[i]
        k = (r["chain"], r["resseq"], r["icode"], r["resname"], r["name"])
        if k in seen:
            dupkept = k
        seen[k] = i
    rec.check("atoms.one-copy-per-name", dupkept is None, lambda: det({"kept-twice": dupkept}))
    # best copy
    groups = {}
    for i, r in enumerate(sel):
        groups.setdefault((r["chain"], r["resseq"], r["icode"], r["resname"], r["name"]), []).append(i)
    bad = None
    for k, idxs in groups.items():
        if len(idxs) < 2:
            continue
        occs = [sel[i]["occ"] for i in idxs]
        if any(o is None for o in occs):
            continue
        mx = max(occs)
        for i in idxs:
            if i in kept and sel[i]["occ"] < mx:
                bad = (k, sel[i]["occ"], mx)
    rec.check("atoms.best-copy-kept", bad is None, lambda: det({"kept-lower-occupancy-copy": bad}))
    # close pairs among kept (neighbours found by hashing the atoms into cells of 0.6 A: independent of any tree)
    kk = sorted(kept)
    close = None
    near = _neighbours(sel, 0.6)
    kept_set = set(kk)
    for ia in kk:
        ra = sel[ia]
        for ib in near(ia):
            if ib <= ia or ib not in kept_set:
                continue
            rb = sel[ib]
            d = math.dist((ra["x"], ra["y"], ra["z"]), (rb["x"], rb["y"], rb["z"]))
            if d < 0.5 - 1e-6 and ra["occ"] is not None and rb["occ"] is not None:
                close = (ra["name"], rb["name"], round(d, 4))
    rec.check("atoms.no-close-pair-kept", close is None, lambda: det({"kept-pair-closer-than-0.5": close}))
    # missing justified
    unjust = None
    for i, r in enumerate(sel):
        if i in kept:
            continue
        just = False
        for j in groups[(r["chain"], r["resseq"], r["icode"], r["resname"], r["name"])]:
            if j != i and (sel[j]["occ"] is None or r["occ"] is None or sel[j]["occ"] >= r["occ"]):
                just = True
        if not just and r["occ"] is not None:
            for j in near(i):
                q = sel[j]
                if j != i and q["occ"] is not None and q["occ"] >= r["occ"] and math.dist((r["x"], r["y"], r["z"]), (q["x"], q["y"], q["z"])) < 0.5 + 1e-6:
                    just = True
                    break
        if not just:
            unjust = {"residue": (r["chain"], r["resseq"], r["icode"], r["resname"]), "atom": r["name"], "occ": r["occ"], "serial": r["serial"]}
            break
    rec.check("atoms.missing-justified", unjust is None, lambda: det({"missing": unjust, "returned": len(kept), "in-model": len(sel)}))
    # order: kept rows ascending, residues in file order & contiguous
    # order of atoms inside a residue is not part of the statement (a better
    # copy takes the place of the first copy of its name): counted, not judged
    if got_rows != sorted(got_rows):
        rec.count("note:atom-order-inside-residue-differs-from-file")
    want_res = []
    for i in sorted(kept):
        r = sel[i]
        k = ((r["chain"], r["resseq"], r["icode"], r["resname"]), M)
        if not want_res or want_res[-1] != k:
            want_res.append(k)
    rec.check("residues.file-order", order_res == want_res, lambda: det({"got": order_res[:12], "want": want_res[:12]}))


def _foreign_mech(foreign):
    if foreign and foreign["residue"][2] in (".", "?"):
        return "null-marker-kept-as-insertion-code"
    return None


def _post(snap, result, exc, args, kwargs):
    exp = _cur.get("expect")
    if exp is None:
        return
    judge(_cur["rec"], exp, result, exc)


def setup(rec, reach):
    from rnapolis import parser

    _cur["rec"] = rec
    core.wrap(parser, "read_3d_structure", rec, post=_post, label="parser.read_3d_structure")
    for n in ("read_3d_structure", "parse_cif", "parse_pdb", "group_atoms", "filter_clashing_atoms"):
        if hasattr(parser, n):  # helpers that are not part of the public interface may be refactored away
            reach.add(getattr(parser, n), n)


def cases(shard, nshards, seed, tier):
    k = 0

    def mine():
        nonlocal k
        k += 1
        return (k - 1) % nshards == shard

    n = 500 if tier == "quick" else 10000
    for i in range(n):
        if mine():
            yield {"family": "generated", "i": i}
    files = [f for f in gen3d.corpus_files() if not f.endswith(".gz")]
    for fn in files:
        if tier == "quick" and os.path.getsize(os.path.join(core.REPO, fn)) > 400_000:
            continue
        for fmt in ("pdb", "cif"):
            if mine():
                yield {"family": "corpus-reemitted", "file": fn, "fmt": fmt}
    for fmt in (("pdb",) if tier == "quick" else ("pdb", "cif")):
        if mine():
            yield {"family": "eighty-thousand-atoms", "fmt": fmt}
    for i in range(12 if tier == "quick" else 200):
        if mine():
            yield {"family": "through-the-table-writer", "i": i}
    for fn in ("tests/2HY9.cif", "tests/6RS3.cif"):
        for m in ([1, 2, 10] if tier == "quick" else list(range(1, 11))):
            if mine():
                yield {"family": "nmr-ensemble", "file": fn, "model": m}
    # the corpus files themselves (with their entity / modified-residue categories, MODRES records,
    # quoted atom names, gzip): the abstract table comes from our own tokenizer / column reader
    for fn in gen3d.corpus_files():
        if tier == "quick" and os.path.getsize(os.path.join(core.REPO, fn)) > 250_000:
            continue
        for na_only in (False, True):
            if mine():
                yield {"family": "corpus-raw", "file": fn, "nucleic_acid_only": na_only}


def clamp3(v):
    return round(min(9999.999, max(-999.999, v)), 3)


def _read(text, fmt, model):
    from rnapolis import parser

    # the same path is rewritten for every case (see emit.scratch_path)
    path = emit.scratch_path("." + fmt)
    with open(path, "w") as f:
        f.write(text)
    try:
        with open(path) as fh:
            return parser.read_3d_structure(fh, model)
    except Exception:
        return None


def run_case(case, rec):
    seed = os.environ.get("VERIF_SEED", "0")
    fam = case["family"]
    if fam == "generated":
        rng = random.Random(f"{seed}:C08:{case['i']}")
        fmt = rng.choice(["pdb", "cif"])
        nulls = fmt == "cif" and rng.random() < 0.5
        rows = gentab.random_table(rng, null_occ=nulls and rng.random() < 0.6, blank_chain=(fmt == "pdb" and rng.random() < 0.1), wide=(fmt == "pdb" or rng.random() < 0.5),
                                   hetero=case["i"] % 3 == 1)
        if fmt == "cif" and case["i"] % 5 == 2 and len({r["model"] for r in rows}) > 1:
            # atom_site sorted by chain first and model second: the records of a model are not contiguous
            order = []
            for r in rows:
                if r["chain"] not in order:
                    order.append(r["chain"])
            rows.sort(key=lambda r: order.index(r["chain"]))
        if fmt == "pdb":
            if not emit.fits_pdb(rows):
                rec.skip("atoms.as-written", "generated table outside PDB limits")
                return
            per_frame_end = case["i"] % 7 == 3
            six = case["i"] % 13 == 6
            if six:
                # a very large system: serials run past 99999 and are written with six digits (ATOM records only)
                for k, r in enumerate(rows):
                    r["rec"], r["serial"] = "ATOM", 99995 + k
            text = emit.emit_pdb(rows, end_after_each_model=per_frame_end)
            desc = {"i": case["i"], "fmt": fmt, "END-after-every-model": per_frame_end, "six-digit-serials": six}
        else:
            marker = rng.choice(["?", "."])
            per = {c: rng.choice(["?", "."]) for c in ("pdbx_PDB_ins_code", "label_alt_id", "occupancy", "pdbx_formal_charge", "type_symbol")} if rng.random() < 0.5 else {}
            extra, etype = None, None
            if rng.random() < 0.35:
                # modified-residue and entity categories, as deposited files carry them (names stay as written)
                mods, seen = [], set()
                for r in rows:
                    k = (r["chain"], r["resseq"], r["icode"], r["resname"])
                    if r["resname"] in ("PSU", "5MC", "2MG", "H2U") and k not in seen:
                        seen.add(k)
                        mods.append([str(len(mods) + 1), r["chain"], r["resname"], str(r["resseq"]), r["chain"], r["resname"], str(r["resseq"]), r["icode"] or rng.choice(["?", "."]),
                                     {"PSU": "U", "5MC": "C", "2MG": "G", "H2U": "U"}[r["resname"]], "modified"])
                etype = rng.choice(["polyribonucleotide", "polydeoxyribonucleotide", "polydeoxyribonucleotide/polyribonucleotide hybrid", "peptide nucleic acid", "polypeptide(L)"])
                extra = [("entity", ["id", "type"], [["1", "polymer"]], "kv"), ("entity_poly", ["entity_id", "type"], [["1", etype]], "kv")]
                if mods:
                    extra.append(("pdbx_struct_mod_residue", ["id", "label_asym_id", "label_comp_id", "label_seq_id", "auth_asym_id", "auth_comp_id", "auth_seq_id", "PDB_ins_code", "parent_comp_id", "details"], mods, "loop"))
            order = None
            if case["i"] % 4 == 2:
                order = list(emit.CIF_COLS)
                random.Random(f"order:{case['i']}").shuffle(order)
            label_only = case["i"] % 9 == 4 and not extra
            if label_only:
                # label identifiers only: residues are numbered 1, 2, ... within their chain (label_seq_id), no
                # insertion codes; the optional auth_* items are absent from the file
                counters, number = {}, {}
                for r in rows:
                    k = (r["model"], r["chain"], r["resseq"], r["icode"], r["resname"])
                    if k not in number:
                        counters[(r["model"], r["chain"])] = counters.get((r["model"], r["chain"]), 0) + 1
                        number[k] = counters[(r["model"], r["chain"])]
                for r in rows:
                    r["resseq"], r["icode"] = number[(r["model"], r["chain"], r["resseq"], r["icode"], r["resname"])], None
                text = emit.emit_cif(rows, null=marker, nulls=per, label_seq="auth", col_order=order, drop_cols=AUTH_COLS)
            else:
                text = emit.emit_cif(rows, null=marker, nulls=per, label_seq=rng.choice(["index", "auth"]), extra_cats=extra, col_order=order, occ_spellings=case["i"] % 6 == 1)
            desc = {"i": case["i"], "fmt": fmt, "null": marker, "nulls": per, "extra-categories": [c[0] for c in extra or []], "item-order": "shuffled" if order else "usual", "label-identifiers-only": label_only}
        if fmt == "cif" and extra and etype != "polypeptide(L)":
            # every atom belongs to an entity that IS a nucleic-acid polymer (one of the four nucleic-acid types):
            # reading nucleic acids only must return what the plain reading returns
            from rnapolis import parser as _parser

            pth = emit.scratch_path(".cif")
            with open(pth, "w") as fh:
                fh.write(text)
            try:
                with open(pth) as fh:
                    full = _parser.read_3d_structure(fh, None)
                with open(pth) as fh:
                    only = _parser.read_3d_structure(fh, None, nucleic_acid_only=True)
                key = lambda st: [(r.model, _ident(r, fmt), tuple((a.name, a.x, a.y, a.z) for a in r.atoms)) for r in st.residues]
                rec.check("filter.nucleic-acid-entities-kept", key(full) == key(only), lambda: {"case": desc, "entity_poly.type": etype, "residues": [len(full.residues), len(only.residues)]})
            except Exception as e:
                rec.violation("read.no-crash", {"case": desc, "info": repr(e)[:300], "option": "nucleic_acid_only"}, mechanism=f"crash:{type(e).__name__}")
        tv = (case["i"] // 3) % 5 if case["i"] % 3 == 0 else 0
        if tv:
            text = emit.text_variant(text, tv, fmt)
            desc["text-variant"] = {1: "CRLF", 2: "trailing-blanks-stripped", 3: "no-final-newline", 4: "tabs-between-values"}[tv]
        models = sorted({r["model"] for r in rows})
        reqs = [None] + models + [models[-1] + 7]
        rec.mark_nontrivial(len(rows) >= 2)
        for req in reqs:
            _cur["expect"] = {"rows": rows, "fmt": fmt, "model": req, "desc": desc}
            try:
                _read(text, fmt, req)
            finally:
                _cur["expect"] = None
        if fmt == "pdb" and case["i"] % 4 == 1 and not six:
            # the SAME path rewritten at once with other content of the SAME size (fixed-width records: only the
            # coordinates and a residue number change), and read again
            rows2 = [dict(r, x=round(-r["x"], 3) if -999.999 <= -r["x"] <= 9999.999 else r["x"], z=clamp3(r["z"] + 1.0)) for r in rows]
            text2 = emit.emit_pdb(rows2, end_after_each_model=per_frame_end)
            if len(text2) == len(text):
                rec.count("note:same-path-same-size-rewrite")
                desc2 = dict(desc, rewritten="same path, same size, other coordinates")
                for req in reqs[:2]:
                    _cur["expect"] = {"rows": rows2, "fmt": fmt, "model": req, "desc": desc2}
                    try:
                        _read(text2, fmt, req)
                    finally:
                        _cur["expect"] = None
        return
    if fam == "through-the-table-writer":
        # a table that needs fitting (two-character chain name) and has insertion codes, through parse_cif_atoms ->
        # fit_to_pdb -> write_pdb, then read: every residue and every atom must come back (identities are renamed by the
        # fitting, so residues are compared by position, atoms by name and coordinates)
        from rnapolis import parser as _parser
        from rnapolis import parser_v2

        rng = random.Random(f"{seed}:C08:pipe:{case['i']}")
        rows = gentab.random_table(rng, nmodels=1, altlocs=False, close_pairs=False, dup_names=False, nchains=rng.choice([1, 2]), wide=False, charges=False, icodes=True)
        names = {}
        for r in rows:
            r["chain"] = names.setdefault(r["chain"], r["chain"] + "X")
            r["occ"], r["alt"] = 1.0, None
        # every chain gets a run n, nA, nB: residues that differ in the insertion code only
        seen_res = {}
        for r in rows:
            seen_res.setdefault(r["chain"], [])
            k = (r["resseq"], r["icode"])
            if k not in seen_res[r["chain"]]:
                seen_res[r["chain"]].append(k)
        for ch, ks in seen_res.items():
            base_num = ks[0][0]
            ren = {k: (base_num, None if j == 0 else "ABCDEFGH"[j - 1]) for j, k in enumerate(ks[:4])}
            taken = set(ren.values())
            if any((k not in ren) and k in taken for k in ks):
                continue
            first_name = next(r["resname"] for r in rows if r["chain"] == ch)
            for r in rows:
                if r["chain"] == ch and (r["resseq"], r["icode"]) in ren:
                    r["resseq"], r["icode"] = ren[(r["resseq"], r["icode"])]
                    if case["i"] % 2 == 0:
                        r["resname"], r["rec"] = first_name, "ATOM"  # ... and, every other case, in nothing else (same residue name)
        want = []
        for r in rows:
            k = (r["chain"], r["resseq"], r["icode"], r["resname"])
            if not want or want[-1][0] != k:
                want.append((k, []))
            want[-1][1].append((r["name"], r["x"], r["y"], r["z"]))
        desc = {"i": case["i"], "route": "mmCIF text -> parse_cif_atoms -> fit_to_pdb -> write_pdb -> read_3d_structure"}
        try:
            text = parser_v2.write_pdb(parser_v2.fit_to_pdb(parser_v2.parse_cif_atoms(emit.emit_cif(rows))))
            pth = emit.scratch_path(".pdb")
            with open(pth, "w") as fh:
                fh.write(text)
            _cur["expect"] = None
            with open(pth) as fh:
                st = _parser.read_3d_structure(fh, None)
        except Exception as e:
            rec.undecided("pipeline.every-residue-and-atom-comes-back", f"{type(e).__name__} on the way")
            return
        rec.mark_nontrivial(True)
        got = [sorted((a.name, a.x, a.y, a.z) for a in r.atoms) for r in st.residues]
        exp = [sorted(v) for _, v in want]
        rec.check("pipeline.every-residue-and-atom-comes-back", got == exp, lambda: {"case": desc, "residues": [len(got), len(exp)], "atoms": [sum(map(len, got)), sum(map(len, exp))],
                                                                                      "identities-written": [k for k, _ in want][:8]})
        return
    if fam == "eighty-thousand-atoms":
        # a very large entry: 80 005 atoms on a lattice, and close pairs whose two atoms are far apart in the file
        # (the first residue against solvent at the end; atom 30 000 against atom 60 000)
        fmt = case["fmt"]
        rows = []
        for i in range(80000):
            rows.append({"rec": "ATOM", "serial": i + 1, "name": "P", "alt": None, "resname": "A", "chain": "ABCDEFGH"[i // 10000], "resseq": i % 10000, "icode": None,
                         "x": round((i % 50) * 3.0, 3), "y": round((i // 50 % 50) * 3.0, 3), "z": round((i // 2500) * 3.0, 3), "occ": 1.0, "b": 0.0, "element": "P", "charge": None, "model": 1})
        for k, (src_i, occ) in enumerate(((0, 0.4), (30000, 1.0), (60000, 0.5), (79999, 0.7), (12345, 0.2))):
            a = rows[src_i]
            if src_i in (30000, 79999):
                a["occ"] = 0.6
            rows.append({"rec": "HETATM", "serial": 80001 + k, "name": "O", "alt": None, "resname": "HOH", "chain": "W", "resseq": k + 1, "icode": None,
                         "x": round(a["x"] + 0.3, 3), "y": a["y"], "z": a["z"], "occ": occ, "b": 0.0, "element": "O", "charge": None, "model": 1})
        text = emit.emit_pdb(rows) if fmt == "pdb" else emit.emit_cif(rows)
        rec.mark_nontrivial(True)
        _cur["expect"] = {"rows": rows, "fmt": fmt, "model": None, "desc": {"atoms": len(rows), "fmt": fmt}}
        try:
            _read(text, fmt, None)
        finally:
            _cur["expect"] = None
        return
    if fam == "corpus-reemitted":
        s = gen3d.load(case["file"])
        rows = emit.rows_from_structure(s)
        fmt = case["fmt"]
        if fmt == "pdb" and not emit.fits_pdb(rows):
            rec.skip("atoms.as-written", "corpus table outside PDB limits")
            return
        if fmt == "cif" and any(not (r["chain"] or "").strip() for r in rows):
            rec.skip("atoms.as-written", "blank chain has no mmCIF form")
            return
        text = emit.emit_pdb(rows) if fmt == "pdb" else emit.emit_cif(rows)
        rec.mark_nontrivial(len(rows) >= 2)
        _cur["expect"] = {"rows": rows, "fmt": fmt, "model": None, "desc": {"file": case["file"], "fmt": fmt}}
        try:
            _read(text, fmt, None)
        finally:
            _cur["expect"] = None
        return
    if fam == "corpus-raw":
        return _corpus_raw(case, rec)
    # NMR ensembles: the file itself; the abstract table comes from our own tokenizer
    from vmon.oracles import ciftok

    text = open(os.path.join(core.REPO, case["file"])).read()
    fr = ciftok.frame(text)
    items, rws = fr["cats"]["atom_site"]
    ix = {n: items.index(n) for n in items}
    rows = []
    for r in rws:
        ic = r[ix["pdbx_PDB_ins_code"]] if "pdbx_PDB_ins_code" in ix else "?"
        oc = r[ix["occupancy"]]
        rows.append({"rec": r[ix["group_PDB"]], "serial": int(r[ix["id"]]), "name": r[ix["label_atom_id"]], "alt": None, "resname": r[ix["auth_comp_id"]], "chain": r[ix["auth_asym_id"]],
                     "resseq": int(r[ix["auth_seq_id"]]), "icode": None if ic in ("?", ".") else ic, "x": float(r[ix["Cartn_x"]]), "y": float(r[ix["Cartn_y"]]), "z": float(r[ix["Cartn_z"]]),
                     "occ": None if oc in ("?", ".") else float(oc), "b": None, "element": None, "charge": None, "model": int(r[ix["pdbx_PDB_model_num"]])})
    rec.mark_nontrivial(True)
    _cur["expect"] = {"rows": rows, "fmt": "cif", "model": case["model"], "desc": {"file": case["file"], "model": case["model"]}}
    try:
        with open(os.path.join(core.REPO, case["file"])) as fh:
            from rnapolis import parser

            try:
                parser.read_3d_structure(fh, case["model"])
            except Exception:
                pass
    finally:
        _cur["expect"] = None


def _raw_rows(path, text):
    """Abstract rows of a corpus file, read independently of rnapolis.parser."""
    from vmon.oracles import ciftok

    rows = []
    if any(l.startswith("_atom_site.") for l in text.splitlines()[:20000]):
        fr = ciftok.frame(text)
        items, rws = fr["cats"]["atom_site"]
        ix = {n: items.index(n) for n in items}
        for r in rws:
            ic = r[ix["pdbx_PDB_ins_code"]] if "pdbx_PDB_ins_code" in ix else "?"
            oc = r[ix["occupancy"]] if "occupancy" in ix else "?"
            rows.append({"rec": r[ix["group_PDB"]], "serial": int(r[ix["id"]]), "name": r[ix["label_atom_id"]], "alt": None, "resname": r[ix["auth_comp_id"]], "chain": r[ix["auth_asym_id"]],
                         "resseq": int(r[ix["auth_seq_id"]]), "icode": None if ic in ("?", ".") else ic, "x": float(r[ix["Cartn_x"]]), "y": float(r[ix["Cartn_y"]]), "z": float(r[ix["Cartn_z"]]),
                         "occ": None if oc in ("?", ".") else float(oc), "b": None, "element": None, "charge": None,
                         "model": int(r[ix["pdbx_PDB_model_num"]]) if "pdbx_PDB_model_num" in ix else 1})
        return rows, "cif"
    model = 1
    for line in text.splitlines():
        if line.startswith("MODEL"):
            model = int(line[10:14])
        elif line.startswith(("ATOM", "HETATM")):
            rows.append({"rec": line[:6].strip(), "serial": len(rows) + 1, "name": line[12:16].strip(), "alt": None, "resname": line[17:20].strip(), "chain": line[21],
                         "resseq": int(line[22:26]), "icode": line[26].strip() or None, "x": float(line[30:38]), "y": float(line[38:46]), "z": float(line[46:54]),
                         "occ": float(line[54:60]), "b": None, "element": None, "charge": None, "model": model})
    return rows, "pdb"


STANDARD_NT = {"A", "C", "G", "U", "DA", "DC", "DG", "DT"}


def _corpus_raw(case, rec):
    import gzip

    from rnapolis import parser
    from rnapolis.util import handle_input_file

    path = os.path.join(core.REPO, case["file"])
    text = gzip.open(path, "rt").read() if path.endswith(".gz") else open(path).read()
    try:
        rows, fmt = _raw_rows(path, text)
    except Exception as e:
        rec.undecided("atoms.as-written", f"own reader rejects the corpus file: {type(e).__name__}")
        return
    rec.mark_nontrivial(len(rows) >= 2)
    models = []
    for r in rows:
        if r["model"] not in models:
            models.append(r["model"])
    reqs = [None] + models[:2] + ([models[-1]] if len(models) > 2 else [])
    na_only = case["nucleic_acid_only"]
    for req in reqs:
        desc = {"file": case["file"], "model": req, "nucleic_acid_only": na_only}
        fh = handle_input_file(path)
        if not na_only:
            _cur["expect"] = {"rows": rows, "fmt": fmt, "model": req, "desc": desc}
            try:
                try:
                    parser.read_3d_structure(fh, req)
                except Exception:
                    pass
            finally:
                _cur["expect"] = None
            continue
        # nucleic-acid-only reading: whatever is kept is kept whole and in order, standard nucleotides are kept
        try:
            full = parser.read_3d_structure(handle_input_file(path), req)
            only = parser.read_3d_structure(fh, req, nucleic_acid_only=True)
        except Exception as e:
            rec.violation("read.no-crash", {"case": desc, "info": repr(e)[:300]}, mechanism=f"crash:{type(e).__name__}")
            continue
        key = lambda r: (r.model, _ident(r, fmt), tuple((a.name, a.x, a.y, a.z, a.occupancy) for a in r.atoms))
        fk, ok_ = [key(r) for r in full.residues], [key(r) for r in only.residues]
        it = iter(fk)
        subseq = all(any(x == y for y in it) for x in ok_)
        rec.check("filter.kept-residues-whole-and-in-order", subseq, lambda: {"case": desc, "kept": len(ok_), "all": len(fk)})
        kept = {k[:2] for k in ok_}
        lost = [k[1] for k in fk if k[1][3] in STANDARD_NT and k[:2] not in kept and len(k[2]) >= 6]
        rec.check("filter.standard-nucleotides-kept", not lost, lambda: {"case": desc, "lost": lost[:6]})


def classify(v):
    return v.get("mechanism")
