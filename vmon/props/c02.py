"""C02 - pseudoknot order assignment is proper and optimal."""
import random

from vmon import core, gen2d, mon2d
from vmon.oracles import o2d

ID = "C02"
LEVEL = "exploration"
RULE = (
    "cases: every partial matching of 1..N (N<=8 quick, <=10 thorough), hostile list, random multi-stem knotted "
    "structures (conflict components of 2-10 stems: random, clique, chain, short-stem-first shapes); the real "
    "dot_bracket getter (default solver) and convert_to_dot_bracket are monitored; the objective of the returned "
    "notation is compared with an exact branch-and-bound optimum per conflict component. Non-trivial = conflict graph "
    "has at least one edge (structure is pseudoknotted); distinct = canonical JSON hash."
)
ASSUMPTIONS = [
    "exact optimiser vmon/oracles/o2d.py:optimum (branch and bound, integers only); components over its step cap are undecided",
    "default solver of this sandbox is CBC (HiGHS not installed)",
]
REQUIRED_MONITORS = ["BpSeq.dot_bracket", "BpSeq.convert_to_dot_bracket"]
REQUIRED_CLAUSES = ["optimal.proper", "optimal.objective", "optimal.not-worse-than-fcfs", "pkfree.round-only", "optimal.no-lower-level-free"]
LANDMARKS = {
    "objective-level0": ("BpSeq.convert_to_dot_bracket", "terms.append(var * length)"),
    "objective-higher": ("BpSeq.convert_to_dot_bracket", "terms.append(-1 * var * length * order)"),
    "adjacency-constraint": ("BpSeq.convert_to_dot_bracket", "<= 1"),
    "readback": ("BpSeq.convert_to_dot_bracket", "orders[i] = order"),
    "pk-free-shortcut": ("BpSeq.convert_to_dot_bracket", "return self.__make_dot_bracket(regions, [0 for _ in range(len(regions))])"),
}

_cur = {}


def _post(what):
    def post(snap, result, exc, args, kwargs):
        return judge(what, snap, result, exc)

    return post


def judge(what, snap, result, exc):
    """Judges one answer of `the` notation of a structure (also called directly by the workload for
    answers that did not come through the wrapped getter, e.g. a value already stored on the object)."""
    if True:
        rec = _cur["rec"]
        if _cur.get("muted"):
            return
        f = mon2d.facts(snap)
        # a stem crossed by 30 or more others makes the model offer more orders than there are bracket types; an answer
        # is judged all the same (an optimal assignment has no use for the surplus orders), a refusal is not
        over = f is not None and max((len(v) for v in f["g"].values()), default=0) + 1 > 30 and max(o2d.fcfs_levels(f["reg"]), default=0) < 30
        if f is None or not (mon2d.levels_ok(f) or over):
            rec.skip("optimal.objective", "out-of-domain")
            return
        if exc is not None and over:
            rec.skip("optimal.objective", "more orders offered than bracket types: refused")
            return
        if exc is not None:
            rec.violation("optimal.no-crash", mon2d.crash_detail(exc, f, what), mechanism=f"crash:{type(exc).__name__}:{what}")
            return
        st = getattr(result, "structure", None)
        dec, why = o2d.decode(st) if isinstance(st, str) else (None, "not a string")
        det = lambda extra=None: {"what": what, "structure": st, "pairs": f["pairs"], "n": f["n"], "info": extra}
        if dec is None or set(dec) != set(map(tuple, f["pairs"])):
            rec.violation("optimal.lossless", det(why), mechanism=None)
            return
        x = o2d.same_level_crossing(dec)
        rec.check("optimal.proper", x is None, lambda: det({"crossing-on-level": x}))
        if x is not None:
            return
        reg, g = f["reg"], f["g"]
        lev = []
        split = False
        for s in f["stems"]:
            ls = {dec[p] for p in s}
            split = split or len(ls) > 1
            lev.append(min(ls))
        if split:
            # score by nucleotides exactly as the statement does
            val = sum((2 if l == 0 else -2 * l) for l in dec.values())
            val_half = val / 2
        else:
            val_half = o2d.objective(reg, lev)
        if not f["knotted"]:
            rec.check("pkfree.round-only", set(st) <= set("()."), lambda: det("non-round bracket in pk-free structure"))
        try:
            best = o2d.optimum(reg, g)
        except o2d.Budget:
            rec.undecided("optimal.objective", "reference-budget")
            best = None
        if best is not None:
            rec.check("optimal.objective", val_half == best, lambda: det({"objective": val_half, "optimum": best}))
        fl = o2d.fcfs_levels(reg)
        if best is not None and o2d.objective(reg, fl) < best:
            rec.count("note:cases-where-fcfs-is-strictly-suboptimal")
        rec.check("optimal.not-worse-than-fcfs", val_half >= o2d.objective(reg, fl), lambda: det({"objective": val_half, "fcfs": o2d.objective(reg, fl)}))
        if not split:
            movable = None
            for i in range(len(reg)):
                used = {lev[j] for j in g[i]}
                low = [c for c in range(lev[i]) if c not in used]
                if low:
                    movable = (reg[i], lev[i], low[0])
                    break
            rec.check("optimal.no-lower-level-free", movable is None, lambda: det({"movable": movable}))


def _pre_self(args, kwargs):
    return mon2d.snapshot(args[0])


def setup(rec, reach):
    from rnapolis import common

    _cur["rec"] = rec
    B = common.BpSeq
    core.wrap(B, "dot_bracket", rec, post=_post("dot_bracket"), pre=_pre_self, label="BpSeq.dot_bracket")
    core.wrap(B, "convert_to_dot_bracket", rec, post=_post("convert_to_dot_bracket"), pre=_pre_self, label="BpSeq.convert_to_dot_bracket")
    for name in ("dot_bracket", "convert_to_dot_bracket", "_BpSeq__make_dot_bracket", "_BpSeq__regions"):
        if name in B.__dict__:  # private helpers may be refactored away: the reach map then simply has no entry for them
            reach.add(B.__dict__[name], f"BpSeq.{name.replace('_BpSeq', '')}")


def knotted_random(rng, big=False):
    shape = rng.choice([None, None, "ladder", "chain", "short-first"])
    if shape == "short-first":
        # a short stem opened first crossing several longer ones: FCFS puts
        # the short stem on level 0, the optimum does not
        k = rng.randint(2, 5)
        n, pairs = gen2d.random_stems(rng, k + 1, maxlen=6, spacer=(0, 2), shape="ladder" if rng.random() < 0.5 else None)
        return n, pairs
    ns = rng.randint(2, 10 if big else 7)
    return gen2d.random_stems(rng, ns, maxlen=rng.choice([1, 3, 6]), spacer=(0, rng.choice([0, 2, 4])), shape=shape)


def cases(shard, nshards, seed, tier):
    k = 0

    def mine():
        nonlocal k
        k += 1
        return (k - 1) % nshards == shard

    nmax = 8 if tier == "quick" else 10
    for n in range(0, nmax + 1):
        for pairs in gen2d.matchings(n):
            if mine():
                yield {"family": "exhaustive", "n": n, "pairs": pairs}
    # the 3D entry point with and without the all-dot-brackets option: the structure's own notation is the optimal
    # one either way (the option only adds the list)
    for fn in ("tests/1ehz-assembly-1.cif", "tests/4qln.cif", "tests/1E7K_1_C.cif", "tests/1gid.cif.gz"):
        if mine():
            yield {"family": "from-3d-with-and-without-the-list", "file": fn}
    for name, n, pairs in gen2d.hostile():
        if name == "ladder30":
            continue
        if mine():
            yield {"family": "hostile", "name": name, "n": n, "pairs": pairs}
    name, n, pairs = gen2d.thousand_stems()
    if mine():
        yield {"family": "hostile", "name": name, "n": n, "pairs": pairs}
    # a stem crossed by 29 / 30 / 45 other stems (degree + 1 exceeds the 30 bracket types) next to a chain of four stems
    # whose optimum needs three levels although first-come-first-served uses two
    for fan in (29, 30, 45):
        name, n, pairs = gen2d.fan_and_chain(fan)
        if mine():
            yield {"family": "hostile", "name": name, "n": n, "pairs": pairs}
    # hundreds of stems that DO cross (250, 300 and - thorough - 600 pseudoknots in a row, first-come-first-served not optimal)
    for units in (250, 300) + ((600,) if tier != "quick" else ()):
        name, n, pairs = gen2d.many_small_knots(units)
        if mine():
            yield {"family": "hostile", "name": name, "n": n, "pairs": pairs}
    # isolated pairs that shape the level assignment: a 2-bp stem crossed by four single pairs; a 3-bp and a 2-bp
    # stem crossing each other with single pairs tipping the balance
    for nm, n_, pr in (("stem2-crossed-by-4-singles", 22, [(1, 14), (3, 16), (5, 18), (7, 20), (9, 13), (10, 12)][:4] + [(9, 22), (10, 21)]),
                       ("stems-3-and-2-plus-singles", 26, [(1, 12), (2, 11), (3, 10), (6, 18), (7, 17), (14, 22), (15, 24), (20, 26)])):
        if mine():
            yield {"family": "hostile", "name": nm, "n": n_, "pairs": sorted(pr)}
    nrand = 1500 if tier == "quick" else 30000
    for i in range(nrand):
        if not mine():
            continue
        rng = random.Random(f"{seed}:C02:r:{i}")
        if i % 3 == 0:
            # several independent knotted domains side by side (different level needs)
            off, allp = 0, []
            for blk in range(rng.randint(2, 3)):
                n1, p1 = gen2d.random_stems(rng, rng.randint(2, 4), maxlen=rng.choice([1, 2, 5]), spacer=(0, 2), shape=rng.choice([None, "ladder", "chain"]))
                allp += [(a + off, b + off) for a, b in p1]
                off += n1
            yield {"family": "random-multi-domain", "n": off, "pairs": sorted(allp)}
            continue
        n, pairs = knotted_random(rng, big=(i % 5 == 0))
        yield {"family": "random-knotted", "n": n, "pairs": pairs}
    # a solver failure earlier in the process must not influence later, healthy conversions
    for name, n, pairs in gen2d.hostile():
        if name in ("H-type-short-first", "triangle-short-first", "kissing", "pk-multiloop", "short-first-1-3", "short-first-2-4"):
            for beh in ("raise", "notsolved", "infeasible"):
                if mine():
                    yield {"family": "fault-then-healthy", "n": n, "pairs": pairs, "behaviour": beh}
    # the largest legal number of levels: 30 mutually crossing stems of different lengths through the MILP path.
    # Plain CBC does not finish on this model (30 x 30 binaries, 13 050 pairwise rows); it is given the implied
    # clique rows (sum over a set of mutually exclusive binaries <= 1), which change neither feasibility nor optimum
    for t in range(1 if tier == "quick" else 3):
        if mine():
            yield {"family": "thirty-levels", "t": t}
    if tier == "thorough" and mine():
        yield {"family": "corpus-bpseq", "file": "tests/6EK0-L5-L8.bpseq"}


def run_case(case, rec):
    from rnapolis import common
    import pulp

    if case["family"] == "from-3d-with-and-without-the-list":
        from rnapolis import annotator
        from vmon import gen3d

        s3 = gen3d.load(case["file"], 1)
        try:
            plain, only = annotator.extract_secondary_structure(s3, None, False, False)
            withlist, lst = annotator.extract_secondary_structure(s3, None, False, True)
        except Exception as e:
            rec.undecided("optimal.same-notation-with-the-list-option", f"annotation raised {type(e).__name__}")
            return
        rec.mark_nontrivial(len(lst) > 1)
        # every conversion made on the way is judged by the objective contract; the option must not change the choice
        rec.check("optimal.same-notation-with-the-list-option", plain.dotBracket == withlist.dotBracket and plain.bpseq == withlist.bpseq and plain.dotBracket in lst,
                  lambda: {"file": case["file"], "without-the-option": plain.dotBracket[-200:], "with-the-option": withlist.dotBracket[-200:], "members": len(lst)})
        return
    if case["family"] == "corpus-bpseq":
        import os

        b = common.BpSeq.from_file(os.path.join(core.REPO, case["file"]))
        rec.mark_nontrivial(True)
        try:
            b.dot_bracket
        except Exception:
            pass
        return
    if case["family"] == "thirty-levels":
        return _thirty(case, rec)
    n, pairs = case["n"], [tuple(p) for p in case["pairs"]]
    if case["family"] == "fault-then-healthy":
        from vmon.props import c13

        _cur["muted"] = True  # the faulty conversion legitimately returns FCFS (C13 judges it)
        try:
            for cfg in ("cbc", "highs"):
                with c13._Inject(cfg, case["behaviour"]) as inj:
                    try:
                        mon2d.make_bpseq(n, pairs).dot_bracket
                        mon2d.make_bpseq(n, pairs).convert_to_dot_bracket(inj.explicit)
                    except Exception:
                        pass
        finally:
            _cur["muted"] = False
    b = mon2d.make_bpseq(n, pairs)
    f = mon2d.facts(mon2d.snapshot(b))
    rec.mark_nontrivial(f["knotted"])
    if max((len(c) for c in o2d.components(f["g"])), default=0) > 14 and not str(case.get("name", "")).startswith("fan-of-"):
        # (the designated fans are stars: easy for CBC and for the reference, which has its own step cap anyway)
        rec.skip("optimal.objective", "component>14")
        return
    try:
        b.dot_bracket
    except Exception:
        pass
    if pairs and (int(core.chash(case)[:2], 16) % 3 == 0 or case.get("family") == "hostile"):
        _other_routes(n, pairs, f, rec)
    if f["knotted"] and chash_bit(case):
        # the explicit-solver entry point, on a fresh object
        b2 = mon2d.make_bpseq(n, pairs)
        try:
            b2.convert_to_dot_bracket(pulp.PULP_CBC_CMD(msg=False))
        except Exception:
            pass


def _text(f, lev):
    st = ["."] * f["n"]
    for stem, l in zip(f["stems"], lev):
        for i, j in stem:
            st[i - 1] = o2d.OPEN[l]
            st[j - 1] = o2d.CLOSE[l]
    return "".join(st)


def _other_routes(n, pairs, f, rec):
    """The same pairing reaching BpSeq by other public routes: parsed from a dot-bracket whose levels are
    NOT the optimal ones (first-come-first-served text; every level raised by one; levels in reverse
    stem order) and parsed from BPSEQ text.  `the` notation of the resulting object is judged whether or
    not it came through the (wrapped) solver path."""
    from rnapolis import common

    seq = f["seq"]
    fl = o2d.fcfs_levels(f["reg"])
    rev = list(reversed(o2d.fcfs_levels(list(reversed(f["reg"]))))) if hasattr(o2d, "fcfs_levels") else fl
    texts = {"fcfs-levels": _text(f, fl), "levels-raised-by-one": _text(f, [l + 1 for l in fl])}
    dec, _ = o2d.decode(_text(f, rev))
    if dec is not None and set(dec) == set(pairs) and o2d.same_level_crossing(dec) is None:
        texts["levels-from-the-3'-end"] = _text(f, rev)
    if max(fl) + 1 >= 29:
        return
    for how, text in texts.items():
        try:
            b = common.BpSeq.from_dotbracket(common.DotBracket.from_string(seq, text))
            snap = mon2d.snapshot(b)
            res = b.dot_bracket
        except Exception as e:
            rec.violation("optimal.no-crash", {"route": "from_dotbracket:" + how, "text": text, "exception": repr(e)[:200]}, mechanism=f"crash:{type(e).__name__}:from_dotbracket")
            continue
        rec.count("route:from_dotbracket:" + how)
        judge("dot_bracket of BpSeq.from_dotbracket(" + how + ")", snap, res, None)
    try:
        b = common.BpSeq.from_string(str(mon2d.make_bpseq(n, pairs)))
        snap = mon2d.snapshot(b)
        judge("dot_bracket of BpSeq.from_string(text)", snap, b.dot_bracket, None)
    except Exception:
        pass
    # ... and read from a dot-bracket FILE whose levels use the letter brackets (Aa, Bb: every level raised by four),
    # with and without a header line, with Windows line endings: `the` notation is judged as the notation of the
    # structure that was written into the file
    if max(fl) + 4 < 29:
        from vmon import emit

        want_snap = mon2d.snapshot(mon2d.make_bpseq(n, pairs, seq))
        raised = _text(f, [l + 4 for l in fl])
        for how, content in (("header", f">strand_A\n{seq}\n{raised}\n"), ("plain", f"{seq}\n{raised}\n"), ("header-crlf", f">strand_A\r\n{seq}\r\n{raised}\r\n")):
            path = emit.scratch_path(".dbn")
            with open(path, "w", newline="") as fh:
                fh.write(content)
            try:
                res = common.BpSeq.from_dotbracket(common.DotBracket.from_file(path)).dot_bracket
            except Exception as e:
                rec.violation("optimal.no-crash", {"route": "from_file:" + how, "text": content, "exception": repr(e)[:200]}, mechanism=f"crash:{type(e).__name__}:from_file")
                continue
            rec.count("route:from_file:" + how)
            judge("dot_bracket of BpSeq.from_dotbracket(DotBracket.from_file(letter levels, " + how + "))", want_snap, res, None)
    # the list of all notations is asked for FIRST, `the` notation afterwards, on one object
    try:
        comp = max((len(c) for c in o2d.components(f["g"])), default=0)
        try:
            size = o2d.grundy_product_size(f["reg"], f["g"]) if comp <= 6 else None
        except o2d.Budget:
            size = None
        if size is not None and size <= 2000:  # the list is a cartesian product over the groups of crossing stems
            b = mon2d.make_bpseq(n, pairs)
            snap = mon2d.snapshot(b)
            b.all_dot_brackets
            rec.count("route:all_dot_brackets-first")
            judge("dot_bracket after all_dot_brackets on the same object", snap, b.dot_bracket, None)
    except Exception as e:
        rec.violation("optimal.no-crash", {"route": "all_dot_brackets-first", "exception": repr(e)[:200]}, mechanism=f"crash:{type(e).__name__}:all-first")
    # derived objects: `the` notation of the structure without isolated pairs / without pseudoknots is judged as the
    # notation of THAT structure (the source's notation has been computed before, as a caller printing both would)
    try:
        src = mon2d.make_bpseq(n, pairs)
        src.dot_bracket
        for how in ("without_isolated", "without_pseudoknots"):
            d = getattr(src, how)()
            snap = mon2d.snapshot(d)
            rec.count("route:" + how)
            judge("dot_bracket of " + how + "()", snap, d.dot_bracket, None)
    except Exception as e:
        rec.violation("optimal.no-crash", {"route": "derived", "exception": repr(e)[:200]}, mechanism=f"crash:{type(e).__name__}:derived")


def _clique_cbc():
    import itertools

    import pulp

    class CliqueCBC(pulp.PULP_CBC_CMD):
        """CBC given, next to the model's rows x + y <= 1, the implied row sum(clique) <= 1 for greedily grown
        cliques of mutually exclusive binaries."""

        def actualSolve(self, lp, **kwargs):
            adj, var = {}, {}
            for row in list(lp.constraints.values()):
                if row.sense == pulp.LpConstraintLE and len(row) == 2 and row.constant == -1 and all(c == 1 for c in row.values()):
                    a, b = row.keys()
                    adj.setdefault(a.name, set()).add(b.name)
                    adj.setdefault(b.name, set()).add(a.name)
                    var[a.name], var[b.name] = a, b
            covered, count = set(), 0
            for a in sorted(adj):
                for b in sorted(adj[a]):
                    if a > b or (a, b) in covered:
                        continue
                    cl = [a, b]
                    for c in sorted(adj[a] & adj[b]):
                        if all(c in adj[d] for d in cl):
                            cl.append(c)
                    covered.update(itertools.permutations(cl, 2))
                    if len(cl) > 2:
                        lp += pulp.lpSum(var[v] for v in cl) <= 1, f"vmon_clique_{count}"
                        count += 1
            return super().actualSolve(lp, **kwargs)

    return CliqueCBC(msg=False)


def _thirty(case, rec):
    import pulp

    rng = random.Random(f"C02:thirty:{case['t']}")
    k = 30
    lens = [rng.randint(1, 4) for _ in range(k)]
    # stem i opens before stem i+1 and closes before it: all stems cross each other
    pos, opens = 1, []
    for L in lens:
        opens.append(pos)
        pos += L + 1
    pairs = []
    for i, L in enumerate(lens):
        close = pos
        for q in range(L):
            pairs.append((opens[i] + q, close + L - 1 - q))
        pos += L + 1
    n = pos
    rec.mark_nontrivial(True)
    solver = _clique_cbc()
    b = mon2d.make_bpseq(n, sorted(pairs))
    try:
        b.convert_to_dot_bracket(solver)
    except Exception:
        pass
    saved = pulp.LpSolverDefault
    pulp.LpSolverDefault = _clique_cbc()
    try:
        mon2d.make_bpseq(n, sorted(pairs)).dot_bracket
    except Exception:
        pass
    finally:
        pulp.LpSolverDefault = saved


def chash_bit(case):
    return int(core.chash(case)[-1], 16) % 4 == 0


def classify(v):
    return v.get("mechanism")
