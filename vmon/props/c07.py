"""C07 - structural elements decompose the secondary structure consistently."""
import collections
import random

from vmon import core, gen2d, mon2d
from vmon.oracles import o2d

ID = "C07"
LEVEL = "exploration"
RULE = (
    "cases: every partial matching of 1..N (N<=8 quick, <=11 thorough), hostile list, random nested/knotted stem-built "
    "structures up to N=300, knotted structures decomposed while the MILP back-end fails transiently; BpSeq.elements is monitored on the real path (it reads the object's own dot_bracket) and "
    "compared with an independent decomposition (maximal stacked runs, hairpin pairs, loop closure, interior coverage "
    "count per unpaired nucleotide, slice equality). Non-trivial = at least one base pair; distinct = canonical JSON hash."
)
ASSUMPTIONS = [
    "interior of a strand: 5' tail first..last-1, 3' tail first+1..last, any other strand first+1..last-1",
    "slices are compared with the dot-bracket text cached on the object by elements itself (judged by C01)",
]
REQUIRED_MONITORS = ["BpSeq.elements"]
REQUIRED_CLAUSES = ["cli.printed-strands-are-slices-of-the-printed-notation", "transient.strands-are-slices-of-own-dot-bracket", "stems.maximal-runs", "hairpins.exact", "loops.sound", "unpaired.covered-once", "strands.slices"]
LANDMARKS = {
    "hairpin": ("BpSeq.elements", "hairpins.append"),
    "loop": ("BpSeq.elements", "loops.append(Loop(loop))"),
    "tail5": ("BpSeq.elements", "if stops[0] > 0:"),
    "leftover-single-strand": ("BpSeq.elements", "single_strands.append(SingleStrand(loop_candidate, False, False))"),
}
_cur = {}


def _post(snap, result, exc, args, kwargs):
    rec = _cur["rec"]
    f = mon2d.facts(snap)
    if f is None or not mon2d.levels_ok(f):
        rec.skip("stems.maximal-runs", "out-of-domain")
        return
    n, pairs = f["n"], f["pairs"]
    if exc is not None:
        rec.violation("elements.no-crash", mon2d.crash_detail(exc, f, "elements"), mechanism=f"crash:{type(exc).__name__}")
        return
    stems, ss, hp, loops = result
    desc = lambda: [str(x) for x in list(stems) + list(ss) + list(hp) + list(loops)][:40]
    det = lambda extra=None: {"n": n, "pairs": pairs, "elements": desc(), "info": extra}
    st_ref, hp_ref, pm, unp = o2d.elements_ref(n, pairs)
    # ---- stems -----------------------------------------------------------
    got = []
    mirrored = True
    for s in stems:
        a, b = s.strand5p, s.strand3p
        L = a.last - a.first + 1
        if b.last - b.first + 1 != L or L < 1:
            mirrored = False
            continue
        got.append([(a.first + k, b.last - k) for k in range(L)])
    rec.check("stems.mirrored", mirrored, det)
    rec.check("stems.maximal-runs", sorted(got) == sorted(st_ref), lambda: det({"want": st_ref[:10], "got": got[:10]}))
    # ---- hairpins --------------------------------------------------------
    gh = sorted((h.strand.first, h.strand.last) for h in hp)
    rec.check("hairpins.exact", gh == hp_ref, lambda: det({"want": hp_ref, "got": gh}))
    # ---- loops -----------------------------------------------------------
    paired = set(pm)
    bad = None
    for l in loops:
        ok = len(l.strands) >= 2
        for a, c in zip(l.strands, list(l.strands[1:]) + list(l.strands[:1])):
            if pm.get(a.last) != c.first:
                ok = False
        for s in l.strands:
            if s.first > s.last or any(k in paired for k in range(s.first + 1, s.last)):
                ok = False
            if s.first not in paired or s.last not in paired:
                ok = False
        if not ok:
            bad = str(l)
    rec.check("loops.sound", bad is None, lambda: det({"bad-loop": bad}))
    # ---- coverage --------------------------------------------------------
    cover = collections.Counter()
    for s in ss:
        t = s.strand
        if s.is5p and s.is3p:
            rng = range(t.first, t.last + 1)
        elif s.is5p:
            rng = range(t.first, t.last)
        elif s.is3p:
            rng = range(t.first + 1, t.last + 1)
        else:
            rng = range(t.first + 1, t.last)
        for k in rng:
            cover[k] += 1
    for h in hp:
        for k in range(h.strand.first + 1, h.strand.last):
            cover[k] += 1
    for l in loops:
        for t in l.strands:
            for k in range(t.first + 1, t.last):
                cover[k] += 1
    wrong = [(k, cover[k]) for k in sorted(unp) if cover[k] != 1]
    mech = None
    if wrong and not pairs and not (stems or ss or hp or loops):
        mech = "pair-free-structure:no-elements-at-all"
    rec.check("unpaired.covered-once", not wrong, lambda: det({"unpaired-with-cover!=1": wrong[:10]}), mechanism=mech)
    inter = [k for k in cover if k not in unp]
    rec.check("interiors.unpaired-only", not inter, lambda: det({"paired-in-interior": inter[:10]}))
    # ---- slices ----------------------------------------------------------
    db = args[0].__dict__.get("dot_bracket")
    if db is None:
        # elements did not leave the notation on the object: take the structure's
        # dot-bracket from a fresh copy (same deterministic solver, same answer)
        if not pairs:
            text0 = "." * n
        else:
            try:
                text0 = mon2d.make_bpseq(n, pairs, f["seq"]).dot_bracket.structure
            except Exception:
                rec.undecided("strands.slices", "dot_bracket of a fresh copy raised")
                return

        class _T:
            structure = text0

        db = _T
    seq, text = f["seq"], db.structure
    # the notation the strands are slices of must be this structure's own: same sequence, same length
    dbseq = getattr(db, "sequence", None)
    if dbseq is not None:
        rec.check("strands.dot-bracket-is-of-this-structure", dbseq == seq and len(text) == n, lambda: det({"dot_bracket.sequence": dbseq[:120], "sequence": seq[:120], "len(structure)": len(text)}))
    allstr = []
    for s in stems:
        allstr += [s.strand5p, s.strand3p]
    allstr += [s.strand for s in ss] + [h.strand for h in hp]
    for l in loops:
        allstr += list(l.strands)
    badslice = None
    for t in allstr:
        if not (1 <= t.first <= t.last <= n) or t.sequence != seq[t.first - 1 : t.last] or t.structure != text[t.first - 1 : t.last]:
            badslice = (t.first, t.last, t.sequence, t.structure)
            break
    rec.check("strands.slices", badslice is None, lambda: det({"strand": badslice, "dot_bracket": text}))


def _pre_self(args, kwargs):
    return mon2d.snapshot(args[0])


def setup(rec, reach):
    from rnapolis import common

    _cur["rec"] = rec
    B = common.BpSeq
    core.wrap(B, "elements", rec, post=_post, pre=_pre_self, label="BpSeq.elements")
    reach.add(B.__dict__["elements"], "BpSeq.elements")
    reach.add(common.Strand.__dict__["from_bpseq_entries"], "Strand.from_bpseq_entries")
    reach.add(common.Stem.__dict__["from_bpseq_entries"], "Stem.from_bpseq_entries")


def cases(shard, nshards, seed, tier):
    k = 0

    def mine():
        nonlocal k
        k += 1
        return (k - 1) % nshards == shard

    nmax = 8 if tier == "quick" else 11
    for n in range(0, nmax + 1):
        for pairs in gen2d.matchings(n):
            if mine():
                yield {"family": "exhaustive", "n": n, "pairs": pairs}
    # five to seven mutually crossing stems of three or four pairs each: letter brackets (level 4 and up) on real stems
    for kk in (5, 6, 7):
        for L in (3, 4):
            pairs = []
            for s_ in range(kk):
                for q in range(L):
                    pairs.append((s_ * (L + 1) + q + 1, kk * (L + 1) + s_ * (L + 1) + (L - q)))
            if mine():
                yield {"family": "hostile", "name": f"{kk}-crossing-stems-of-{L}", "n": 2 * kk * (L + 1), "pairs": sorted(pairs)}
    for name, n, pairs in gen2d.hostile():
        if name in ("ladder30",):
            continue
        if mine():
            yield {"family": "hostile", "name": name, "n": n, "pairs": pairs}
    nrand = 1500 if tier == "quick" else 30000
    for i in range(nrand):
        if not mine():
            continue
        rng = random.Random(f"{seed}:C07:r:{i}")
        shape = rng.choice([None, None, "nested", "nested", "chain"])
        ns = rng.randint(1, 8 if shape is None else 25)
        n, pairs = gen2d.random_stems(rng, ns, maxlen=rng.choice([1, 2, 6]), spacer=(0, rng.choice([0, 1, 2, 5])), shape=shape)
        if n <= 300:
            yield {"family": "random-stems", "n": n, "pairs": pairs, "seq": gen2d.seq_for(n, rng)}
    # transient solver fault: the decomposition is asked for while the MILP back-end fails, the
    # object's dot-bracket is read afterwards with a healthy back-end (and the other way round)
    tf = [(name, n, pairs) for name, n, pairs in gen2d.hostile() if name in ("H-type-short-first", "short-first-1-3", "short-first-2-4", "triangle-short-first", "kissing", "six-H-types")]
    for i in range(20 if tier == "quick" else 400):
        rng = random.Random(f"{seed}:C07:tf:{i}")
        n, pairs = gen2d.random_stems(rng, rng.randint(2, 6), maxlen=rng.choice([1, 3, 6]), spacer=(0, 2), shape=rng.choice([None, "chain"]))
        tf.append((f"r{i}", n, pairs))
    for name, n, pairs in tf:
        for order in ("fault-then-healthy", "healthy-then-fault"):
            if mine():
                yield {"family": "transient-fault", "name": name, "n": n, "pairs": pairs, "order": order}
    # the command-line tool: what it prints (full notation + element lines) must be consistent with itself and
    # with the input, for BPSEQ input and for dot-bracket input written with other levels than the library's own
    cli = [(name, n, pairs) for name, n, pairs in gen2d.hostile() if name in ("H-type-short-first", "kissing", "pk-multiloop", "isolated-mix", "bulge1", "triangle-short-first", "nopairs")]
    for i in range(10 if tier == "quick" else 150):
        rng = random.Random(f"{seed}:C07:cli:{i}")
        n, pairs = gen2d.random_stems(rng, rng.randint(1, 6), maxlen=rng.choice([1, 3, 6]), spacer=(0, 3), shape=rng.choice([None, "nested", "chain"]))
        cli.append((f"r{i}", n, pairs))
    for name, n, pairs in cli:
        for how in ("bpseq", "dbn-fcfs-levels", "dbn-levels-raised", "dbn-own-notation"):
            if mine():
                yield {"family": "cli-motif-extractor", "name": name, "n": n, "pairs": pairs, "input": how}
    # elements as the annotator reports them for 3D structures (Structure2D): strands against the reported per-strand
    # notation, with and without gap placeholders
    from vmon import gen3d

    for fn in [f for f in gen3d.corpus_files() if f.endswith(("1E7K_1_C.cif", "1ehz-assembly-1.cif", "488d.pdb", "4qln.cif", "4WTI_1_T-P.cif", "6g90_1.cif"))]:
        for gaps in (False, True):
            if fn.endswith("6g90_1.cif") and tier == "quick" and not gaps:
                continue
            if mine():
                yield {"family": "from-3d", "file": fn, "gaps": gaps, "n": 0, "pairs": []}
        # a chain whose last nucleotides are listed after the other chains (chain A, chain B, chain A again), chains in
        # reverse order
        for ops in ([{"op": "split-chain", "tail": 3}], [{"op": "chain-order", "seed": "c07", "mode": "reverse"}]):
            if not fn.endswith("6g90_1.cif") and mine():
                yield {"family": "from-3d", "file": fn, "gaps": False, "n": 0, "pairs": [], "ops": ops}
    # multiloop-rich: random non-crossing matchings
    nml = 500 if tier == "quick" else 10000
    for i in range(nml):
        if not mine():
            continue
        rng = random.Random(f"{seed}:C07:ml:{i}")
        n = rng.randint(6, 60)
        st = gen2d.random_dotbracket(rng, n, rng.choice([1, 1, 2]))
        dec, _ = o2d.decode(st)
        yield {"family": "random-balanced", "n": n, "pairs": sorted(dec)}


def _all_strands(elements):
    stems, ss, hp, loops = elements
    out = []
    for s in stems:
        out += [s.strand5p, s.strand3p]
    out += [s.strand for s in ss] + [h.strand for h in hp]
    for l in loops:
        out += list(l.strands)
    return out


def _transient(case, rec, n, pairs):
    """elements under a failing back-end, dot_bracket read with a healthy one (or the
    reverse): the strands must be slices of the notation the object itself answers with."""
    from vmon.props.c13 import _Inject

    b = mon2d.make_bpseq(n, pairs)
    det = lambda extra=None: {"n": n, "pairs": pairs, "order": case["order"], "info": extra}
    try:
        if case["order"] == "fault-then-healthy":
            with _Inject("cbc", "raise"):
                el = b.elements
            text = b.dot_bracket.structure
            el2 = b.elements
        else:
            el = b.elements
            with _Inject("cbc", "raise"):
                text = b.dot_bracket.structure
                el2 = b.elements
    except Exception as e:
        rec.violation("transient.no-crash", det(repr(e)[:300]), mechanism=f"crash:{type(e).__name__}")
        return
    bad = None
    for which, e in (("first", el), ("again", el2)):
        for t in _all_strands(e):
            if t.structure != text[t.first - 1 : t.last]:
                bad = (which, t.first, t.last, t.structure, text[t.first - 1 : t.last])
                break
    rec.check("transient.strands-are-slices-of-own-dot-bracket", bad is None, lambda: det({"strand": bad, "dot_bracket": text}))


def _cli(case, rec, n, pairs):
    """motif_extractor.main in-process: parse what it prints."""
    import contextlib
    import io
    import os
    import sys
    import tempfile

    from rnapolis import motif_extractor

    b = mon2d.make_bpseq(n, pairs)
    f = mon2d.facts(mon2d.snapshot(b))
    if not mon2d.levels_ok(f) or max(o2d.fcfs_levels(f["reg"]), default=0) >= 28:
        return
    d = tempfile.mkdtemp(prefix="vmon-c07-")
    try:
        how = case["input"]
        if how == "bpseq":
            path = os.path.join(d, "in.bpseq")
            open(path, "w").write(str(b) + "\n")
            argv = ["--bpseq", path]
        else:
            fl = o2d.fcfs_levels(f["reg"])
            lev = fl if how == "dbn-fcfs-levels" else [l + 1 for l in fl]
            st = ["."] * n
            if how == "dbn-own-notation":
                st = list(mon2d.make_bpseq(n, pairs).dot_bracket.structure)
            else:
                for stem, l in zip(f["stems"], lev):
                    for i, j in stem:
                        st[i - 1], st[j - 1] = o2d.OPEN[l], o2d.CLOSE[l]
            path = os.path.join(d, "in.dbn")
            open(path, "w").write(">x\n" + f["seq"] + "\n" + "".join(st) + "\n")
            argv = ["--dbn", path]
        old, buf = sys.argv, io.StringIO()
        sys.argv = ["motif_extractor"] + argv
        try:
            with contextlib.redirect_stdout(buf):
                motif_extractor.main()
            err = None
        except BaseException as e:
            err = repr(e)
        finally:
            sys.argv = old
        out = buf.getvalue().splitlines()
        det = lambda extra=None: {"n": n, "pairs": pairs, "input": how, "info": extra, "stdout": out[:12]}
        if not rec.check("cli.runs", err is None and len(out) >= 3 and out[0] == "Full dot-bracket:", lambda: det(err)):
            return
        seq, text = out[1], out[2]
        dec, why = o2d.decode(text)
        rec.check("cli.printed-notation-encodes-the-input", seq == f["seq"] and dec is not None and set(dec) == set(pairs), lambda: det(why))
        bad = None
        for line in out[3:]:
            tok = line.split(" ")
            fields = tok[1:]
            if len(fields) % 4:
                bad = ("unparsable element line", line)
                break
            for q in range(0, len(fields), 4):
                first, last, sq, sx = int(fields[q]), int(fields[q + 1]), fields[q + 2], fields[q + 3]
                if sq != seq[first - 1 : last] or sx != text[first - 1 : last]:
                    bad = (line, first, last, seq[first - 1 : last], text[first - 1 : last])
                    break
            if bad:
                break
        rec.check("cli.printed-strands-are-slices-of-the-printed-notation", bad is None, lambda: det(bad))
    finally:
        import shutil

        shutil.rmtree(d, ignore_errors=True)


def _from_3d(case, rec):
    from rnapolis import annotator
    from vmon import gen3d

    s = gen3d.load(case["file"])
    if case.get("ops"):
        s = gen3d.apply_ops(s, case["ops"])
    det = lambda extra=None: {"file": case["file"], "gaps": case["gaps"], "ops": case.get("ops"), "info": extra}
    try:
        s2d, _ = annotator.extract_secondary_structure(s, None, case["gaps"])
    except Exception as e:
        rec.violation("from3d.no-crash", det(repr(e)[:300]), mechanism=f"crash:{type(e).__name__}")
        return
    lines = [l for l in s2d.dotBracket.split("\n") if l and not l.startswith(">")]
    seq, text = "".join(lines[0::2]), "".join(lines[1::2])
    ent = [l.split() for l in s2d.bpseq.splitlines()]
    pairs = sorted((int(a), int(c)) for a, b, c in ent if int(c) and int(a) < int(c))
    rec.mark_nontrivial(bool(pairs))
    dec, why = o2d.decode(text)
    rec.check("from3d.notation-encodes-the-bpseq", seq == "".join(b for a, b, c in ent) and dec is not None and set(dec) == set(pairs), lambda: det({"why": why, "notation": text[:200], "bpseq-sequence": "".join(b for a, b, c in ent)[:200]}))
    bad = None
    for t in _all_strands((s2d.stems, s2d.singleStrands, s2d.hairpins, s2d.loops)):
        if t.sequence != seq[t.first - 1 : t.last] or t.structure != text[t.first - 1 : t.last]:
            bad = (t.first, t.last, t.sequence, t.structure, seq[t.first - 1 : t.last], text[t.first - 1 : t.last])
            break
    rec.check("from3d.strands-are-slices-of-the-reported-notation", bad is None, lambda: det({"strand": bad}))


def run_case(case, rec):
    n, pairs = case["n"], [tuple(p) for p in case["pairs"]]
    if case["family"] == "from-3d":
        return _from_3d(case, rec)
    if case["family"] == "cli-motif-extractor":
        rec.mark_nontrivial(len(pairs) > 0)
        _cli(case, rec, n, pairs)
        return
    if case["family"] == "transient-fault":
        rec.mark_nontrivial(len(pairs) > 0)
        _transient(case, rec, n, pairs)
        return
    b = mon2d.make_bpseq(n, pairs, case.get("seq"))
    rec.mark_nontrivial(len(pairs) > 0)
    try:
        b.elements
    except Exception:
        pass
    # derived structures are asked for (and decomposed: objects of their own for the monitor); afterwards the source
    # must still answer with the decomposition of the structure it is
    if pairs and int(core.chash(case)[2:4], 16) % 3 == 0:
        for op in ("without_isolated", "without_pseudoknots"):
            try:
                getattr(b, op)().elements
            except Exception:
                pass
        # ... and the explicit entry point is used with no back-end (first-come-first-served answer) in between
        try:
            b.convert_to_dot_bracket(None)
        except Exception:
            pass
        try:
            again = b.elements
        except Exception:
            again = None
        if again is not None:
            rec.count("note:source-rejudged-after-derivation")
            _post(mon2d.snapshot(b), again, None, (b,), {})
    # the structure read from its BPSEQ text in the layouts other programs write (right-aligned columns, trailing
    # blanks, Windows line endings, tabs, blank lines): the decomposition must be that of the structure written
    if pairs and int(core.chash(case)[4:6], 16) % 6 == 0:
        from rnapolis import common
        from vmon import gen2d

        snap0 = mon2d.snapshot(b)
        for name, tv in gen2d.bpseq_text_variants(str(b)):
            try:
                el = common.BpSeq.from_string(tv).elements
            except Exception as e:
                rec.violation("text.no-crash", {"layout": name, "text": tv[:200], "exception": repr(e)[:200]}, mechanism=f"crash:{type(e).__name__}:text-layout")
                continue
            rec.count("note:read-from-text-layout")
            _post(snap0, el, None, (b,), {})
    # the same pairing with another sequence, decomposed in the same process
    if pairs and int(core.chash(case)[:2], 16) % 2 == 0:
        seq2 = "".join("UGCA"[(i * 7 + n) % 4] for i in range(n))
        try:
            mon2d.make_bpseq(n, pairs, seq2).elements
        except Exception:
            pass
        # ... and the same stems in a molecule with a longer 3' tail
        try:
            mon2d.make_bpseq(n + 3, pairs).elements
        except Exception:
            pass


def classify(v):
    return v.get("mechanism")
