"""C11 - interaction lists are well-formed and self-consistent."""
import csv
import json
import os
import tempfile

from vmon import core, gen3d, mon3d, work3d
from vmon.oracles import g3d

ID = "C11"
LEVEL = "exploration"
RULE = (
    "cases: the C03/C04 executions (corpus, perturbed corpus, placements, translated copies) plus every model of the NMR ensembles "
    "and, for corpus structures, the CSV/JSON files written by annotator.write_csv / write_json re-read and compared with the lists. "
    "Monitors on find_pairs / find_stackings judge duplicates, self interactions, membership in the analysed model, orientation, "
    "sortedness, the Saenger class against a frozen reverse-symmetric table and every BPh/BR contact against an independent "
    "donor->oxygen evaluator (Zirbel classes incl. 3+5->4, 7+9->8). Non-trivial = at least one interaction reported; distinct = "
    "canonical JSON hash of the case descriptor."
)
ASSUMPTIONS = ["frozen Saenger / donor / Zirbel tables in vmon/oracles/g3d.py", "residue order = (chain, number, insertion code or ' ')"]
REQUIRED_MONITORS = ["annotator.find_pairs", "annotator.find_stackings"]
REQUIRED_CLAUSES = ["lists.structure2d-carries-the-annotation-unchanged", "lists.no-duplicate-pair", "lists.pair-lower-first", "lists.pairs-sorted", "lists.saenger-table", "lists.bph-donor-contact-and-class",
                    "lists.br-donor-contact-and-class", "lists.bph-one-class-per-pair", "lists.stackings-sorted", "lists.participants-in-model", "files.csv-equals-lists", "files.json-equals-lists"]
LANDMARKS = {
    "merge-3-5": ("merge_and_clean_bph_br", "bphs_brs.add(4)"),
    "merge-7-9": ("merge_and_clean_bph_br", "bphs_brs.add(8)"),
    "prune-multi": ("merge_and_clean_bph_br", "bph_br_map[key] = OrderedSet([bphs_brs[0]])"),
    "saenger-hit": ("detect_saenger", "return Saenger[Saenger.table()[key]]"),
}


def setup(rec, reach):
    mon3d.attach(rec, reach, {"C11"})
    sym = g3d.saenger_reverse_symmetric()
    if sym is not None:
        raise RuntimeError(f"frozen Saenger table is not reverse-symmetric at {sym}")


def cases(shard, nshards, seed, tier):
    yield from work3d.cases(ID, shard, nshards, seed, tier, want_models=True)
    for j, fn in enumerate(("tests/184D.cif", "tests/1E7K_1_C.cif", "tests/1ehz-assembly-1.cif", "tests/488d.pdb", "tests/1A1T_1_B.cif")):
        for nine in (False, True):
            if (2 * j + nine) % nshards == shard:
                # the last two: residues with insertion codes (488d has its own; generated ones for the other), so the
                # short form of a unit id ENDS at the insertion-code field
                yield {"family": "imported-annotation", "file": fn, "nine_fields": nine, "ops": [{"op": "icodes", "seed": "imported", "frac": 0.6}] if j == 4 else []}
    # two Residue3D objects carrying the same identifiers (a nucleotide whose base atoms are listed after the rest of
    # its chain): contacts between the two halves are contacts of a residue with itself
    k = 0
    for fn in ("tests/4qln.pdb", "tests/1ehz-assembly-1.cif", "tests/1A1T_1_B.cif", "tests/488d.pdb", "tests/1E7K_1_C.cif"):
        for t in range(2 if tier == "quick" else 12):
            k += 1
            if k % nshards == shard:
                yield {"family": "split-residue", "file": fn, "ops": [{"op": "split-residue", "seed": f"{seed}:C11:split:{fn}:{t}", "frac": 0.25}]}


def _call(s, model):
    from rnapolis import annotator

    try:
        bi = annotator.extract_base_interactions(s, model)
        return len(bi.basePairs) + len(bi.stackings) + len(bi.baseRiboseInteractions) + len(bi.basePhosphateInteractions)
    except Exception:
        return 1


def run_case(case, rec):
    if case["family"] == "imported-annotation":
        return _imported(case, rec)
    work3d.run_case(ID, case, rec, _call)
    if case["family"] == "corpus":
        _files(case, rec)


def _imported(case, rec):
    """An annotation imported from an external tool's listing of the structure's own interactions (unit ids in the short
    and in the full nine-field form): every participant of the imported lists must be a residue of the structure, and
    the lists must be as well-formed as the library's own."""
    import os
    import tempfile

    from rnapolis import adapter, annotator

    s = gen3d.load(case["file"])
    if case.get("ops"):
        s = gen3d.apply_ops(s, case["ops"])
    try:
        bi = annotator.extract_base_interactions(s)
    except Exception as e:
        rec.undecided("lists.participants-in-model", f"annotation raised {type(e).__name__}")
        return
    nine = case["nine_fields"]

    def unit(r):
        a = r.auth
        if nine:
            return "|".join(["XXXX", "1", a.chain, a.name, str(a.number), "", "", a.icode or "", "1_555"])
        return "|".join(["XXXX", "1", a.chain, a.name, str(a.number)] + (["", "", a.icode] if a.icode else []))

    rows = [f"{unit(p.nt1)}\t{p.lw.value}\t{unit(p.nt2)}\t0" for p in bi.basePairs if p.nt1.auth is not None and p.nt2.auth is not None]
    rows += [f"{unit(p.nt1)}\t{ {'upward': 's35', 'downward': 's53', 'inward': 's33', 'outward': 's55'}[p.topology.value] }\t{unit(p.nt2)}\t0" for p in bi.stackings
             if p.nt1.auth is not None and p.nt2.auth is not None]
    if not rows:
        rec.skip("lists.participants-in-model", "nothing to list")
        return
    fd, path = tempfile.mkstemp(suffix=".txt", prefix="vmon-c11-")
    with os.fdopen(fd, "w") as fh:
        fh.write("\n".join(rows) + "\n")
    ctx = {"file": case["file"], "imported": "FR3D listing of the structure's own interactions", "nine-field-unit-ids": nine,
           "participants-with-insertion-codes": sum(1 for p in list(bi.basePairs) + list(bi.stackings) for r in (p.nt1, p.nt2) if r.auth is not None and r.auth.icode)}
    try:
        got = adapter.parse_fr3d_output(path)
    except Exception as e:
        rec.violation("lists.no-crash", {"ctx": ctx, "exception": repr(e)[:200]}, mechanism=f"crash:{type(e).__name__}")
        return
    finally:
        os.remove(path)
    rec.mark_nontrivial(True)
    lost = [x for x in list(got.basePairs) + list(got.stackings) for r in (x.nt1, x.nt2) if s.find_residue(r.label, r.auth) is None]
    rec.check("lists.participants-in-model", not lost and len(got.basePairs) + len(got.stackings) == len(rows),
              lambda: {"ctx": ctx, "not-residues-of-the-structure": [repr(x.nt1) for x in lost[:3]], "imported": len(got.basePairs) + len(got.stackings), "listed": len(rows)})


    both = list(got.basePairs) + list(got.stackings)
    selfj = [x for x in both if x.nt1 == x.nt2]
    keys = [(type(x).__name__, repr(x.nt1), repr(x.nt2)) for x in both]
    rec.check("lists.imported-no-self-joins-no-repeats", not selfj and len(set(keys)) == len(keys),
              lambda: {"ctx": ctx, "self-joins": [repr(x.nt1) for x in selfj[:3]], "repeated": sorted({k for k in keys if keys.count(k) > 1})[:3]})


def _files(case, rec):
    """write_csv / write_json rows re-read and compared with the lists."""
    from rnapolis import annotator

    s = gen3d.load(case["file"])
    try:
        s2d, _ = annotator.extract_secondary_structure(s, None)
    except Exception as e:
        rec.undecided("files.csv-equals-lists", f"extract_secondary_structure raised {type(e).__name__}")
        return
    bi = s2d.baseInteractions
    # the lists carried by the Structure2D (after the 2D mapping has used them) must still be
    # the annotation: same content and order as a separately computed one
    try:
        fresh = annotator.extract_base_interactions(gen3d.load(case["file"]))
        same = (list(bi.basePairs) == list(fresh.basePairs) and list(bi.stackings) == list(fresh.stackings)
                and list(bi.basePhosphateInteractions) == list(fresh.basePhosphateInteractions) and list(bi.baseRiboseInteractions) == list(fresh.baseRiboseInteractions))
        rec.check("lists.structure2d-carries-the-annotation-unchanged", same,
                  lambda: {"file": case["file"], "first-pairs-in-structure2d": [f"{p.nt1.full_name}-{p.nt2.full_name} {p.lw.value}" for p in bi.basePairs[:6]],
                           "first-pairs-annotation": [f"{p.nt1.full_name}-{p.nt2.full_name} {p.lw.value}" for p in fresh.basePairs[:6]]})
    except Exception as e:
        rec.undecided("lists.structure2d-carries-the-annotation-unchanged", type(e).__name__)
    d = tempfile.mkdtemp(prefix="vmon-c11-")
    try:
        pc, pj = os.path.join(d, "o.csv"), os.path.join(d, "o.json")
        # the output paths already exist and hold the result of an earlier run on another input
        try:
            other, _ = annotator.extract_secondary_structure(gen3d.load("tests/1A1T_1_B.cif" if not case["file"].endswith("1A1T_1_B.cif") else "tests/1E7K_1_C.cif"), None)
            annotator.write_csv(pc, other)
            annotator.write_json(pj, other)
        except Exception:
            open(pc, "w").write("nt1,nt2,type,classification-1,classification-2\nX.A1,X.A2,stacking,upward,\n")
        annotator.write_csv(pc, s2d)
        annotator.write_json(pj, s2d)
        rows = list(csv.reader(open(pc)))[1:]
        want = []
        for p in bi.basePairs:
            want.append([p.nt1.full_name, p.nt2.full_name, "base pair", p.lw.value, p.saenger.value if p.saenger is not None else ""])
        for p in bi.stackings:
            want.append([p.nt1.full_name, p.nt2.full_name, "stacking", p.topology.value if p.topology is not None else "", ""])
        for p in bi.basePhosphateInteractions:
            want.append([p.nt1.full_name, p.nt2.full_name, "base-phosphate interaction", p.bph.value if p.bph is not None else "", ""])
        for p in bi.baseRiboseInteractions:
            want.append([p.nt1.full_name, p.nt2.full_name, "base-ribose interaction", p.br.value if p.br is not None else "", ""])
        rec.check("files.csv-equals-lists", rows == want, lambda: {"file": case["file"], "first-diff": next(((a, b) for a, b in zip(rows, want) if a != b), (len(rows), len(want)))})
        doc = json.load(open(pj))
        jb = doc["baseInteractions"]

        def rj(x):
            a = x["auth"]
            return (a["chain"], a["number"], a["icode"], a["name"]) if a else None

        def rl(x):
            return (x.auth.chain, x.auth.number, x.auth.icode, x.auth.name) if x.auth is not None else None

        gotp = [(rj(x["nt1"]), rj(x["nt2"]), x["lw"], x["saenger"]) for x in jb["basePairs"]]
        wantp = [(rl(p.nt1), rl(p.nt2), p.lw.value, p.saenger.value if p.saenger is not None else None) for p in bi.basePairs]
        gots = [(rj(x["nt1"]), rj(x["nt2"]), x["topology"]) for x in jb["stackings"]]
        wants = [(rl(p.nt1), rl(p.nt2), p.topology.value if p.topology is not None else None) for p in bi.stackings]
        ok = gotp == wantp and gots == wants and len(jb["basePhosphateInteractions"]) == len(bi.basePhosphateInteractions) and len(jb["baseRiboseInteractions"]) == len(bi.baseRiboseInteractions)
        rec.check("files.json-equals-lists", ok, lambda: {"file": case["file"]})
    finally:
        import shutil

        shutil.rmtree(d, ignore_errors=True)


def classify(v):
    return v.get("mechanism")
