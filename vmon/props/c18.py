"""C18 - torsion angles follow the IUPAC convention in both implementations."""
import math
import os
import random

import numpy as np

from vmon import core
from vmon.oracles import geom

ID = "C18"
LEVEL = "exploration"
RULE = (
    "cases: point quadruples built with a prescribed IUPAC dihedral phi (720-point grid incl. 0, +-pi/2, pi and random phi; bond "
    "lengths 0.8-2.5, bond angles 20-160 deg) under random proper rigid motions (rotation + translation up to 500 A), each "
    "also reversed and mirrored; plus every backbone/chi torsion of corpus structures through tertiary.Residue3D.chi, the "
    "annotator, and tertiary_v2.Structure.torsion_angles. Contracts sit on tertiary.calculate_torsion_angle_coords, "
    "tertiary.torsion_angle and tertiary_v2.calculate_torsion_angle and judge EVERY call against an independent dihedral "
    "formula (itself validated against the builder in the same run). Non-trivial = sin(phi) bounded away from 0 "
    "(|sin phi|>1e-3) so that sign errors are visible; distinct = canonical JSON hash."
)
ASSUMPTIONS = ["reference dihedral vmon/oracles/geom.py (atan2 form), validated against the constructive builder on every builder case",
               "tolerance 1e-9 rad; inputs whose bond-angle sine product is < 1e-3 are out of the stated domain"]
REQUIRED_MONITORS = ["tertiary.calculate_torsion_angle_coords", "tertiary_v2.calculate_torsion_angle", "tertiary.torsion_angle"]
REQUIRED_CLAUSES = ["v1.equals-iupac", "v2.equals-iupac", "v1.range", "v2.range", "agree.v1-v2", "v1.reversal", "v1.mirror", "v2.reversal", "v2.mirror", "chi.anti-for-A-form", "chi.after-annotation-equals-own-coordinates", "builder.reference-self-check"]
TOL = 1e-9
_cur = {}


def _judge(which):
    def post(snap, result, exc, args, kwargs):
        rec = _cur["rec"]
        pts = snap
        if pts is None:
            return
        ref, margin = geom.dihedral(*pts)
        # a dihedral exists unless three consecutive points are collinear; it is decided here when both bond angles
        # are at least 0.006 degrees away from 0 / 180 (sine >= 1e-4: the reference is then good to ~1e-11 rad)
        s1, s2 = geom.bond_sines(*pts)
        if not (min(s1, s2) >= 1e-4) or math.isnan(ref):
            rec.skip(f"{which}.equals-iupac", "degenerate-geometry")
            return
        if exc is not None:
            rec.violation(f"{which}.no-crash", {"exception": repr(exc), "points": [list(map(float, p)) for p in pts]}, mechanism=f"crash:{type(exc).__name__}")
            return
        try:
            val = float(result)
        except Exception:
            rec.violation(f"{which}.equals-iupac", {"result": repr(result)}, mechanism=None)
            return
        det = lambda: {"impl": which, "got": val, "iupac": ref, "points": [list(map(float, p)) for p in pts], "caller": _cur.get("ctx")}
        if val == -math.pi:
            rec.undecided(f"{which}.range", "exactly -pi (boundary)")
        else:
            rec.check(f"{which}.range", -math.pi < val <= math.pi, det)
        mech = None
        bad = not (geom.wrapdiff(val, ref) <= TOL)
        if bad and geom.wrapdiff(val, -ref) <= TOL:
            mech = f"{which}-returns-negated-dihedral"
        rec.check(f"{which}.equals-iupac", not bad, det, mechanism=mech)

    return post


def _pre_coords(args, kwargs):
    a = list(args) + [kwargs[k] for k in ("p1", "p2", "p3", "p4", "a1", "a2", "a3", "a4") if k in kwargs]
    if len(a) != 4:
        return None
    return [np.array(x, dtype=float) for x in a]


def _pre_atoms(args, kwargs):
    if len(args) != 4:
        return None
    return [np.array([a.x, a.y, a.z], dtype=float) for a in args]


def setup(rec, reach):
    from rnapolis import tertiary, tertiary_v2

    _cur["rec"] = rec
    core.wrap(tertiary, "calculate_torsion_angle_coords", rec, post=_judge("v1"), pre=_pre_coords, label="tertiary.calculate_torsion_angle_coords")
    core.wrap(tertiary, "torsion_angle", rec, post=_judge("v1"), pre=_pre_atoms, label="tertiary.torsion_angle")
    core.wrap(tertiary_v2, "calculate_torsion_angle", rec, post=_judge("v2"), pre=_pre_coords, label="tertiary_v2.calculate_torsion_angle")
    reach.add(tertiary.calculate_torsion_angle_coords, "tertiary.calculate_torsion_angle_coords")
    reach.add(tertiary_v2.calculate_torsion_angle, "tertiary_v2.calculate_torsion_angle")


def _corpus():
    d = os.path.join(core.REPO, "tests")
    return sorted("tests/" + fn for fn in os.listdir(d) if fn.endswith((".cif", ".pdb")) and os.path.getsize(os.path.join(d, fn)) > 0)


def cases(shard, nshards, seed, tier):
    k = 0

    def mine():
        nonlocal k
        k += 1
        return (k - 1) % nshards == shard

    grid = [-math.pi + 2 * math.pi * (i + 1) / 720 for i in range(720)]
    for i, phi in enumerate(grid):
        if mine():
            yield {"family": "grid", "phi": phi, "i": i}
    nrand = 5000 if tier == "quick" else 200000
    # batches of 100 quadruples per case to keep bookkeeping cheap
    for b in range(nrand // 100):
        if mine():
            yield {"family": "random-batch", "batch": b, "count": 100}
    for fn in _corpus():
        if mine():
            yield {"family": "corpus", "file": fn}
    # points given as integers (lattice models, unit tests): the dihedral of integer points is as good as any
    for b in range(2 if tier == "quick" else 20):
        if mine():
            yield {"family": "integer-points", "batch": b, "count": 100}
    # exactly planar quadruples (cis and trans) in axis-aligned planes with exact zeros
    for perm in range(24):
        for phi_name in ("cis", "trans"):
            if mine():
                yield {"family": "exact-planar", "k": perm, "conformation": phi_name}


def _one(rec, phi, rng, idx):
    from rnapolis import tertiary, tertiary_v2

    l1, l2, l3 = (rng.uniform(0.8, 2.5) for _ in range(3))
    # other units of length (nm, pm, scaled models): the angle does not depend on bond lengths
    scale = rng.choice([1.0, 1.0, 1.0, 1.0, 0.01, 0.1, 10.0, 100.0, 1000.0])
    l1, l2, l3 = l1 * scale, l2 * scale, l3 * scale
    th1, th2 = (math.radians(rng.uniform(20, 160)) for _ in range(2))
    nearly_linear = scale == 1.0 and rng.random() < 0.15
    if nearly_linear:
        # bond angles close to (but not at) 0 and 180 degrees: still a well-defined dihedral
        th1 = math.radians(rng.choice([0.2, 0.5, 1.0, 179.0, 179.8, 179.9, 179.95, 179.97, 179.99, 0.02, 0.05]))
        if rng.random() < 0.3:
            th2 = math.radians(rng.choice([0.3, 179.7, 179.96, 0.03]))
    pts = geom.build_dihedral(phi, l1, l2, l3, th1, th2)
    ref, margin = geom.dihedral(*pts)
    rec.check("builder.reference-self-check", geom.wrapdiff(ref, phi) <= 1e-12, lambda: {"phi": phi, "ref": ref})
    R = geom.random_rotation(rng)
    t = np.array([rng.uniform(-500, 500) for _ in range(3)]) * min(1.0, scale) * (0.01 if nearly_linear else 1.0) if rng.random() < 0.7 else np.zeros(3)
    moved = [R @ p + t for p in pts]
    M = np.diag([1.0, 1.0, -1.0])
    mirrored = [R @ (M @ p) + t for p in pts]
    out = {}
    for which, f in (("v1", tertiary.calculate_torsion_angle_coords), ("v2", tertiary_v2.calculate_torsion_angle)):
        _cur["ctx"] = "builder"
        try:
            a = float(f(*moved))
            r = float(f(*reversed(moved)))
            m = float(f(*mirrored))
            base = float(f(*pts))
        except Exception:
            continue  # recorded by the contract
        det = lambda: {"impl": which, "phi": phi, "moved": a, "reversed": r, "mirrored": m, "unmoved": base, "lengths": [l1, l2, l3], "angles": [th1, th2]}
        rec.check(f"{which}.reversal", geom.wrapdiff(a, r) <= TOL, det)
        rec.check(f"{which}.mirror", geom.wrapdiff(m, -a) <= TOL, det)
        rec.check(f"{which}.motion-invariant", geom.wrapdiff(a, base) <= TOL, det)
        out[which] = a
    if len(out) == 2:
        mech = None
        bad = geom.wrapdiff(out["v1"], out["v2"]) > TOL
        if bad and geom.wrapdiff(out["v1"], -out["v2"]) <= TOL:
            mech = "implementations-differ-by-sign"
        rec.check("agree.v1-v2", not bad, lambda: {"phi": phi, "v1": out["v1"], "v2": out["v2"]}, mechanism=mech)


def _chi_reference(r):
    """IUPAC chi from the residue's own atoms: O4'-C1'-N9-C4 for a purine (a base with N9), O4'-C1'-N1-C2
    otherwise.  Purine or pyrimidine is decided by the atoms present, not by any name the library derived."""
    by = {}
    for a in r.atoms:
        by.setdefault(a.name, a)
    names = ["O4'", "C1'", "N9", "C4"] if "N9" in by else ["O4'", "C1'", "N1", "C2"]
    if any(n not in by for n in names):
        return None, 0.0
    return geom.dihedral(*[(by[n].x, by[n].y, by[n].z) for n in names])


def _without_canonical_sequence(path):
    """The same mmCIF text without _entity_poly.pdbx_seq_one_letter_code_can (files written by refinement and
    modelling software often carry only the plain one-letter code, in which modified residues are spelled
    '(PSU)'); None when the item is absent or not a one-line value."""
    import re

    text = open(path).read()
    new, k = re.subn(r"(?m)^_entity_poly\.pdbx_seq_one_letter_code_can[ \t]+\S+[ \t]*\n", "", text)
    return new if k == 1 else None


def _chi_of_file(path, rec, what):
    from rnapolis import parser
    from rnapolis.common import GlycosidicBond

    with open(path) as f:
        s3 = parser.read_3d_structure(f, 1)
    for r in s3.residues:
        if not r.is_nucleotide:
            continue
        ref, margin = _chi_reference(r)
        if ref is None or margin < 1e-3:
            continue
        try:
            chi = r.chi
        except Exception as e:
            rec.violation("chi.no-crash", {"residue": r.full_name, "exception": repr(e), "input": what}, mechanism=f"crash:{type(e).__name__}")
            continue
        ok = chi is not None and not math.isnan(chi) and geom.wrapdiff(chi, ref) <= TOL
        rec.check("chi.equals-own-glycosidic-dihedral", ok, lambda: {"residue": r.full_name, "one-letter": r.one_letter_name, "chi": chi, "reference": ref, "input": what})


def run_case(case, rec):
    fam = case["family"]
    if fam == "grid":
        phi = case["phi"]
        rec.mark_nontrivial(abs(math.sin(phi)) > 1e-3)
        _one(rec, phi, random.Random(f"C18:grid:{case['i']}"), case["i"])
        return
    if fam == "exact-planar":
        from rnapolis import tertiary, tertiary_v2

        rec.mark_nontrivial(True)
        R = geom.axis_permutations()[case["k"]]
        t = np.array([float((case["k"] * 7) % 5 - 2), float(case["k"] % 3), 0.0])
        p1, p2, p3 = np.array([-0.5, 1.0, 0.0]), np.array([0.0, 0.0, 0.0]), np.array([1.5, 0.0, 0.0])
        p4 = np.array([2.0, 1.0, 0.0]) if case["conformation"] == "cis" else np.array([2.0, -1.0, 0.0])
        pts = [R @ p + t for p in (p1, p2, p3, p4)]
        want = 0.0 if case["conformation"] == "cis" else math.pi
        _cur["ctx"] = "exact-planar"
        for which, f in (("v1", tertiary.calculate_torsion_angle_coords), ("v2", tertiary_v2.calculate_torsion_angle)):
            try:
                val = float(f(*pts))
            except Exception:
                continue
            rec.check(f"{which}.exact-planar", geom.wrapdiff(val, want) <= TOL, lambda: {"impl": which, "conformation": case["conformation"], "got": val, "want": want, "points": [list(map(float, p)) for p in pts]})
        return
    if fam == "integer-points":
        from rnapolis import tertiary, tertiary_v2

        rec.mark_nontrivial(True)
        rng = random.Random(f"{os.environ.get('VERIF_SEED', '0')}:C18:int:{case['batch']}")
        _cur["ctx"] = "integer points"
        done = 0
        while done < case["count"]:
            pts = [np.array([rng.randint(-6, 6) for _ in range(3)], dtype=np.int64) for _ in range(4)]
            ref, margin = geom.dihedral(*pts)
            if not (margin > 0.05) or math.isnan(ref):
                continue
            done += 1
            for f in (tertiary.calculate_torsion_angle_coords, tertiary_v2.calculate_torsion_angle):
                try:
                    f(*[p.copy() for p in pts])  # judged by the contracts against the IUPAC reference
                except Exception:
                    pass
            # ... and as Atom objects built from int coordinates
            try:
                atoms = [tertiary.Atom(None, None, None, 1, "X", int(p[0]), int(p[1]), int(p[2]), None) for p in pts]
                tertiary.torsion_angle(*atoms)
            except Exception:
                pass
        return
    if fam == "random-batch":
        rec.mark_nontrivial(True)
        rng = random.Random(f"{os.environ.get('VERIF_SEED', '0')}:C18:b:{case['batch']}")
        for i in range(case["count"]):
            phi = rng.uniform(-math.pi, math.pi)
            if phi == -math.pi:
                phi = math.pi
            _one(rec, phi, rng, i)
        return
    # ---- corpus: every chi / backbone torsion through both code paths ----
    from rnapolis import parser, parser_v2, tertiary_v2, annotator
    from rnapolis.common import GlycosidicBond

    path = os.path.join(core.REPO, case["file"])
    with open(path) as f:
        s3 = parser.read_3d_structure(f, 1)
    nchi = 0
    for r in s3.residues:
        if not r.is_nucleotide:
            continue
        _cur["ctx"] = f"Residue3D.chi {r.full_name}"
        try:
            chi = r.chi
            cls = r.chi_class
        except Exception as e:
            rec.violation("chi.no-crash", {"residue": r.full_name, "exception": repr(e)}, mechanism=f"crash:{type(e).__name__}")
            continue
        ref, margin = _chi_reference(r)
        if ref is None or margin < 1e-3:
            continue
        nchi += 1
        # anti region: outside (-30, 120) degrees; A-form sits near -160
        if ref < math.radians(-90) or ref > math.radians(150):
            rec.check("chi.anti-for-A-form", cls == GlycosidicBond.anti and geom.wrapdiff(chi, ref) <= TOL,
                      lambda: {"residue": r.full_name, "chi": chi, "reference": ref, "class": str(cls)})
    rec.mark_nontrivial(nchi > 0)
    # the same file without the canonical one-letter sequence item
    if case["file"].endswith(".cif"):
        alt = _without_canonical_sequence(path)
        if alt is not None:
            from vmon import emit

            sp = emit.scratch_path(".cif")
            with open(sp, "w") as fh:
                fh.write(alt)
            _cur["ctx"] = "chi, input without pdbx_seq_one_letter_code_can"
            _chi_of_file(sp, rec, case["file"] + " without _entity_poly.pdbx_seq_one_letter_code_can")
    _cur["ctx"] = "chi"
    _chi_of_file(path, rec, case["file"])
    # the same identifiers with other coordinates in the same process (second conformer of
    # the same molecule): every torsion call is judged against the atoms' own x/y/z
    from vmon import gen3d as _g3

    s3b = _g3.rebuild(s3, coord_fn=lambda ri, p: p + np.array([0.31 * ((ri * 7) % 3 - 1), 0.23 * ((ri * 5) % 3 - 1), 0.17 * ((ri * 3) % 3 - 1)]) * (1.0 if len(p) else 1.0) + 0.2 * np.sin(p))
    _cur["ctx"] = "second conformer, same identifiers"
    for r in s3b.residues:
        if r.is_nucleotide:
            try:
                r.chi
            except Exception:
                pass
    # order of operations on one object: full 2D analysis first (stem centroids, inter-stem
    # parameters), chi read afterwards - it must still be the dihedral of the atoms' own x/y/z
    with open(path) as f:
        s3c = parser.read_3d_structure(f, 1)
    _cur["ctx"] = "chi after extract_secondary_structure"
    try:
        annotator.extract_secondary_structure(s3c, 1)
    except Exception:
        pass
    for r in s3c.residues:
        if not r.is_nucleotide:
            continue
        ref, margin = _chi_reference(r)
        if ref is None or margin < 1e-3:
            continue
        try:
            chi = r.chi
        except Exception as e:
            rec.violation("chi.no-crash", {"residue": r.full_name, "exception": repr(e), "after": "extract_secondary_structure"}, mechanism=f"crash:{type(e).__name__}")
            continue
        rec.check("chi.after-annotation-equals-own-coordinates", chi is not None and geom.wrapdiff(chi, ref) <= TOL,
                  lambda: {"residue": r.full_name, "chi": chi, "reference-from-x-y-z": ref})
    # residues whose base type the library could not name (one-letter code N / X / lower case, as unknown or
    # modified components get): chi is still the glycosidic torsion of the base the atoms show
    s3n = _g3.rebuild(s3, letter_fn=lambda ri, r: "NXn?"[ri % 4])
    _cur["ctx"] = "chi, residues of unknown base type"
    for r in s3n.residues:
        ref, margin = _chi_reference(r)
        if ref is None or margin < 1e-3 or "O4'" not in {a.name for a in r.atoms}:
            continue
        try:
            chi = r.chi
        except Exception as e:
            rec.violation("chi.no-crash", {"residue": r.full_name, "exception": repr(e), "one-letter": r.one_letter_name}, mechanism=f"crash:{type(e).__name__}")
            continue
        rec.check("chi.unknown-base-type-equals-own-glycosidic-dihedral", chi is not None and not math.isnan(chi) and geom.wrapdiff(chi, ref) <= TOL,
                  lambda: {"residue": r.full_name, "one-letter": r.one_letter_name, "chi": chi, "reference": ref})
    # annotator path (cis/trans and BPh use torsion_angle through its own alias)
    _cur["ctx"] = "annotator"
    try:
        annotator.extract_base_interactions(s3, 1)
    except Exception:
        pass
    # the tool's table of inter-stem parameters: the torsion column holds the library's values (degrees, (-180, 180])
    _inter_stem_csv(case, rec, path)
    # table-level implementation
    with open(path) as f:
        df = parser_v2.parse_cif_atoms(f) if case["file"].endswith(".cif") else parser_v2.parse_pdb_atoms(f)
    _cur["ctx"] = "tertiary_v2.Structure.torsion_angles"
    if len(df) > 60000:
        return
    try:
        st = tertiary_v2.Structure(df)
        tab = st.torsion_angles
    except Exception as e:
        rec.undecided("v2.table", f"torsion_angles raised {type(e).__name__}")
        return
    rec.count("v2-table-rows", len(tab))
    # the same atoms as an abstract table (independent emitter): (a) both implementations' chi against the dihedral
    # of the TABLE's coordinates, also when the mmCIF items come in another order; (b) the torsion table when one
    # residue in the middle of a chain has lost its base (no chi may be reported for it)
    if os.path.getsize(path) < 260_000:
        _table_checks(case, rec, s3)


def _inter_stem_csv(case, rec, path):
    import contextlib
    import csv
    import io
    import sys

    from rnapolis import annotator, parser
    from vmon import emit

    if os.path.getsize(path) > 600_000:
        return
    try:
        with open(path) as f:
            s2d = annotator.extract_secondary_structure(parser.read_3d_structure(f, None), None)[0]
    except Exception:
        return
    want = [(p.stem1_idx, p.stem2_idx, float(p.torsion)) for p in (s2d.interStemParameters or [])]
    if not want:
        return
    out = emit.scratch_path(".csv")
    if os.path.exists(out):
        os.remove(out)
    old = sys.argv
    _cur["ctx"] = "annotator CLI --inter-stem-csv"
    try:
        sys.argv = ["annotator", "--inter-stem-csv", out, path]
        buf = io.StringIO()
        try:
            with contextlib.redirect_stdout(buf), contextlib.redirect_stderr(buf):
                annotator.main()
        except SystemExit:
            pass
        except Exception as e:
            rec.violation("cli.inter-stem-torsions-are-the-library's", {"file": case["file"], "exception": repr(e)[:200]}, mechanism=f"crash:{type(e).__name__}")
            return
    finally:
        sys.argv = old
    try:
        with open(out) as fh:
            rows = list(csv.DictReader(fh))
        got = [(int(r["stem1_idx"]), int(r["stem2_idx"]), float(r["torsion"])) for r in rows]
    except Exception as e:
        rec.violation("cli.inter-stem-torsions-are-the-library's", {"file": case["file"], "problem": "table not written or not readable", "exception": repr(e)[:200]}, mechanism="table-unreadable")
        return
    bad = [(w, g) for w, g in zip(want, got) if w[:2] != g[:2] or abs(w[2] - g[2]) > 1e-6 or not (-180.0 < g[2] <= 180.0)]
    rec.check("cli.inter-stem-torsions-are-the-library's", len(want) == len(got) and not bad,
              lambda: {"file": case["file"], "rows": [len(want), len(got)], "first-difference": bad[:2]})


def _ref_by_residue(rows):
    by = {}
    for r in rows:
        by.setdefault((r["chain"], r["resseq"], r["icode"]), {"name": r["resname"], "atoms": {}})["atoms"].setdefault(r["name"], (r["x"], r["y"], r["z"]))
    out = {}
    for k, v in by.items():
        a = v["atoms"]
        names = ["O4'", "C1'", "N9", "C4"] if "N9" in a else ["O4'", "C1'", "N1", "C2"]
        if all(n in a for n in names):
            ref, margin = geom.dihedral(*[a[n] for n in names])
            if margin >= 1e-3:
                out[k] = (ref, v["name"], "N9" in a)
    return by, out


_OWN = {"beta": ["P", "O5'", "C5'", "C4'"], "gamma": ["O5'", "C5'", "C4'", "C3'"], "delta": ["C5'", "C4'", "C3'", "O3'"]}


def _backbone_row(rec, row, k, by, what):
    """Every backbone torsion the table reports for a residue is the torsion over four atoms bonded in sequence:
    its own atoms for beta/gamma/delta; for alpha the O3' of a residue whose O3' lies within 3 A of this residue's P
    (the library links at 2.4 A), for epsilon/zeta the P (and O5') of a residue whose P lies within 3 A of this
    residue's O3'.  Compared by magnitude (the sign of the table-level function is the recorded finding)."""
    a = by[k]["atoms"]

    def val(name):
        v = row.get(name)
        return None if v is None or (isinstance(v, float) and math.isnan(v)) else float(v)

    def near(own, other):
        if own not in a:
            return []
        p = np.array(a[own])
        return [kk for kk, vv in by.items() if kk != k and other in vv["atoms"] and float(np.linalg.norm(np.array(vv["atoms"][other]) - p)) <= 3.0]

    for name, atoms in _OWN.items():
        v = val(name)
        if v is None or any(n not in a for n in atoms):
            if v is not None:
                rec.violation("v2.table-backbone-torsion-is-over-bonded-atoms", {"residue": k, "angle": name, "value": v, "missing": [n for n in atoms if n not in a], "input": what}, mechanism="torsion-without-its-atoms")
            continue
        ref, margin = geom.dihedral(*[a[n] for n in atoms])
        if margin < 1e-3:
            continue
        rec.check("v2.table-backbone-torsion-is-over-bonded-atoms", abs(abs(v) - abs(ref)) <= 1e-6, lambda: {"residue": k, "angle": name, "value": v, "dihedral-of-written-coordinates": ref, "input": what})
    for name in ("alpha", "epsilon", "zeta"):
        v = val(name)
        if v is None:
            continue
        cands = []
        if name == "alpha":
            for j in near("P", "O3'"):
                if all(n in a for n in ("P", "O5'", "C5'")):
                    cands.append(geom.dihedral(by[j]["atoms"]["O3'"], a["P"], a["O5'"], a["C5'"]))
        elif name == "epsilon":
            for j in near("O3'", "P"):
                if all(n in a for n in ("C4'", "C3'", "O3'")):
                    cands.append(geom.dihedral(a["C4'"], a["C3'"], a["O3'"], by[j]["atoms"]["P"]))
        else:
            for j in near("O3'", "P"):
                if all(n in a for n in ("C3'", "O3'")) and "O5'" in by[j]["atoms"]:
                    cands.append(geom.dihedral(a["C3'"], a["O3'"], by[j]["atoms"]["P"], by[j]["atoms"]["O5'"]))
        if any(m < 1e-3 for _, m in cands):
            continue
        rec.check("v2.table-backbone-torsion-is-over-bonded-atoms", any(abs(abs(v) - abs(r)) <= 1e-6 for r, _ in cands),
                  lambda: {"residue": k, "angle": name, "value": v, "torsions-over-bonded-neighbours": [r for r, _ in cands], "input": what})


def _table_checks(case, rec, s3):
    import random as _r

    from rnapolis import parser, parser_v2, tertiary_v2
    from vmon import emit

    rows = [r for r in emit.rows_from_structure(s3) if r["model"] == s3.residues[0].model] if s3.residues else []
    if not rows or any(not (r["chain"] or "").strip() for r in rows):
        return
    rng = _r.Random("C18:table:" + case["file"])
    # (a) residue-level reader: mmCIF with the usual and a shuffled item order; PDB with fields filled to their edges
    # (the molecule translated so that coordinates take all eight columns, five-digit serials, HETATM for modified
    # residues): chi is invariant under the translation, the dihedral of the WRITTEN coordinates is the reference
    from vmon import work3d

    shifted = [dict(r) for r in rows]
    edge_desc = work3d.field_edges_rows(shifted, _r.Random("C18:edges:" + case["file"]))
    pdb_ok = emit.fits_pdb(shifted) and all(len(r["chain"]) == 1 for r in shifted)
    for what, order in (("usual item order", None), ("shuffled item order", rng.sample(emit.CIF_COLS, len(emit.CIF_COLS))), ("PDB, fields filled to their edges %s" % (edge_desc,), "pdb")):
        if order == "pdb" and not pdb_ok:
            continue
        by, ref = _ref_by_residue(shifted if order == "pdb" else rows)
        sp = emit.scratch_path(".pdb" if order == "pdb" else ".cif")
        with open(sp, "w") as fh:
            fh.write(emit.emit_pdb(shifted) if order == "pdb" else emit.emit_cif(rows, col_order=order))
        _cur["ctx"] = "chi of a re-emitted table, " + what
        try:
            with open(sp) as fh:
                s = parser.read_3d_structure(fh, None)
        except Exception as e:
            rec.violation("chi.no-crash", {"input": case["file"] + " re-emitted, " + what, "exception": repr(e)[:200]}, mechanism=f"crash:{type(e).__name__}")
            continue
        for r in s.residues:
            k = (r.auth.chain, r.auth.number, r.auth.icode) if r.auth is not None else None
            if k not in ref or not r.is_nucleotide:
                continue
            try:
                chi = r.chi
            except Exception:
                continue
            rec.check("chi.equals-dihedral-of-the-written-table", chi is not None and not math.isnan(chi) and geom.wrapdiff(chi, ref[k][0]) <= 1e-6,
                      lambda: {"residue": r.full_name, "chi": chi, "dihedral-of-written-coordinates": ref[k][0], "input": case["file"] + " re-emitted, " + what})
    # (b) table-level torsion table, complete and with one base stripped
    by, ref = _ref_by_residue(rows)
    std = [k for k, v in ref.items() if v[1] in ("A", "G", "C", "U", "DA", "DG", "DC", "DT")]
    variants = [("complete", rows)]
    if len(std) >= 3:
        victim = std[len(std) // 2]
        base_names = {"N1", "C2", "N3", "C4", "C5", "C6", "N7", "C8", "N9", "O6", "N6", "N2", "O2", "O4", "N4", "C7"}
        variants.append(("base of %s stripped" % (victim,), [r for r in rows if not ((r["chain"], r["resseq"], r["icode"]) == victim and r["name"] in base_names)]))
    # a second model holding a slightly different conformation of the same residues (an ensemble, frames of a
    # trajectory): the table of a multi-model input describes ONE conformation per row (the first model's, as the
    # references are taken from the first occurrence of every residue)
    jr = _r.Random("C18:model2:" + case["file"])
    second = [dict(r, model=r["model"] + 1, x=round(r["x"] + jr.gauss(0, 0.15), 3), y=round(r["y"] + jr.gauss(0, 0.15), 3), z=round(r["z"] + jr.gauss(0, 0.15), 3)) for r in rows]
    variants.append(("two models, the second a perturbed copy", rows + second))
    # components whose NAMES begin with the letter of another base (T6A is an adenosine, A5M a cytidine, GMU a
    # uridine): whatever the table reports as chi for them is still the glycosidic torsion of the base the atoms show
    other_names = {"A": "T6A", "G": "CG1", "C": "A5M", "U": "GMU"}
    if len(std) >= 6:
        chosen = set(jr.sample(std, min(4, len(std)))) | {std[0], std[-1]}
        variants.append(("components named T6A / CG1 / A5M / GMU", [dict(r, resname=other_names.get(r["resname"], r["resname"]), rec="HETATM") if (r["chain"], r["resseq"], r["icode"]) in chosen else r for r in rows]))
    for what, rws in variants:
        by, ref = _ref_by_residue(rws)
        _cur["ctx"] = "v2 torsion table, " + what
        try:
            tab = tertiary_v2.Structure(parser_v2.parse_cif_atoms(emit.emit_cif(rws))).torsion_angles
        except Exception as e:
            rec.undecided("v2.table-chi", f"torsion_angles raised {type(e).__name__}")
            continue
        for _, row in tab.iterrows():
            ic = row["insertion_code"] if isinstance(row["insertion_code"], str) and row["insertion_code"] else None
            k = (str(row["chain_id"]), int(row["residue_number"]), ic)
            c = row.get("chi")
            has = c is not None and not (isinstance(c, float) and math.isnan(c))
            if k in ref and ref[k][1] in ("A", "G", "C", "U", "DA", "DG", "DC", "DT", "T"):
                mech = None
                okv = has and abs(abs(float(c)) - abs(ref[k][0])) <= 1e-6
                rec.check("v2.table-chi-magnitude", okv, lambda: {"residue": k, "table-chi": c, "dihedral-of-written-coordinates": ref[k][0], "input": case["file"] + ", " + what}, mechanism=mech)
            elif k in by and k not in ref:
                rec.check("v2.table-no-chi-without-glycosidic-atoms", not has, lambda: {"residue": k, "table-chi": c, "atoms": sorted(by[k]["atoms"])[:12], "input": case["file"] + ", " + what})
            elif k in ref:
                # a component the library may or may not name a base for: no chi is fine, a chi must be the right one
                rec.check("v2.table-chi-when-reported-is-the-glycosidic-torsion-of-the-atoms", (not has) or abs(abs(float(c)) - abs(ref[k][0])) <= 1e-6,
                          lambda: {"residue": k, "name": ref[k][1], "purine-by-atoms": ref[k][2], "table-chi": c, "dihedral-of-written-coordinates": ref[k][0], "input": case["file"] + ", " + what})
            if k in by:
                _backbone_row(rec, row, k, by, case["file"] + ", " + what)


def classify(v):
    return v.get("mechanism")
