"""C04 - stacking annotation equals its geometric definition."""
from vmon import mon3d, work3d

ID = "C04"
LEVEL = "exploration"
RULE = (
    "cases: as C03 (corpus, perturbed corpus, two-residue placements sweeping centroid distance across 6 A, inter-normal angle "
    "across 35 deg, offset angle across 45 deg and the normals' dot product through 0, exactly translated copies with parallel "
    "normals). annotator.find_stackings is monitored and compared both ways (soundness under the undirected reading of the offset "
    "angle, completeness under the directed reading the code uses; pairs satisfying only the undirected reading are undecided) with "
    "a dense O(n^2) evaluator. Non-trivial = at least one stacking reported; distinct = canonical JSON hash of the case descriptor."
)
ASSUMPTIONS = ["thresholds 6 A / 35 deg / 45 deg and BASE_ATOMS frozen in vmon/oracles/g3d.py", "centroid = mean of the present base heavy atoms",
               "documented reading of 'within 45 deg of one of the normals' - see DESIGN.md 4.C04"]
REQUIRED_MONITORS = ["annotator.find_stackings"]
REQUIRED_CLAUSES = ["stackings.sound", "stackings.complete", "stackings.once", "stackings.lower-first", "stackings.label-class"]
LANDMARKS = {
    "normals-filter": ("find_stackings", "if math.degrees(angle) > STACKING_MAX_ANGLE_BETWEEN_NORMALS:"),
    "offset-filter": ("find_stackings", "if math.degrees(angle) > STACKING_MAX_ANGLE_BETWEEN_VECTOR_AND_NORMAL:"),
    "inward": ("find_stackings", 'pairs.append((residue_i, residue_j, "inward"))'),
    "downward": ("find_stackings", 'pairs.append((residue_j, residue_i, "downward"))'),
}


def setup(rec, reach):
    mon3d.attach(rec, reach, {"C04"})


def cases(shard, nshards, seed, tier):
    return work3d.cases(ID, shard, nshards, seed, tier)


def _call(s, model):
    from rnapolis import annotator

    try:
        return len(annotator.find_stackings(s, model))
    except Exception:
        return 1


def run_case(case, rec):
    work3d.run_case(ID, case, rec, _call)


def classify(v):
    return v.get("mechanism")
