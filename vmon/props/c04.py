"""C04 - stacking annotation equals its geometric definition."""
from vmon import mon3d, work3d

ID = "C04"
LEVEL = "exploration"
RULE = (
    "cases: as C03 (corpus, perturbed corpus, two-residue placements sweeping centroid distance across 6 A, inter-normal angle "
    "across 35 deg, offset angle across 45 deg and the normals' dot product through 0, exactly translated copies with parallel "
    "normals). annotator.find_stackings is monitored and compared both ways (soundness under the undirected reading of the offset "
    "angle, completeness under the directed reading the code uses; pairs satisfying only the undirected reading are undecided) with "
    "a dense O(n^2) evaluator. Non-trivial = at least one stacking reported; distinct = canonical JSON hash of the case descriptor."
)
ASSUMPTIONS = ["thresholds 6 A / 35 deg / 45 deg and BASE_ATOMS frozen in vmon/oracles/g3d.py", "centroid = mean of the present base heavy atoms",
               "documented reading of 'within 45 deg of one of the normals' - see DESIGN.md 4.C04"]
REQUIRED_MONITORS = ["annotator.find_stackings"]
REQUIRED_CLAUSES = ["stackings.sound", "stackings.complete", "stackings.once", "stackings.lower-first", "stackings.label-class"]
LANDMARKS = {
    "normals-filter": ("find_stackings", "if math.degrees(angle) > STACKING_MAX_ANGLE_BETWEEN_NORMALS:"),
    "offset-filter": ("find_stackings", "if math.degrees(angle) > STACKING_MAX_ANGLE_BETWEEN_VECTOR_AND_NORMAL:"),
    "inward": ("find_stackings", 'pairs.append((residue_i, residue_j, "inward"))'),
    "downward": ("find_stackings", 'pairs.append((residue_j, residue_i, "downward"))'),
}


def setup(rec, reach):
    mon3d.attach(rec, reach, {"C04"})


def cases(shard, nshards, seed, tier):
    yield from work3d.cases(ID, shard, nshards, seed, tier)
    # what a user reads: the stacking rows of the command-line tool's --csv file, the output path being reused
    # for several inputs in a row (each stacking of the analysed input once, nothing else)
    k = 0
    for files in (["tests/1E7K_1_C.cif", "tests/1ATO.pdb", "tests/1ATO.pdb"], ["tests/1A1T_1_B.cif", "tests/4WTI_1_T-P.cif"]):
        k += 1
        if k % nshards == shard:
            yield {"family": "cli-csv-path-reused", "files": files}


def _call(s, model):
    from rnapolis import annotator

    try:
        return len(annotator.find_stackings(s, model))
    except Exception:
        return 1


def _cli_csv(case, rec):
    import contextlib
    import csv
    import io
    import os
    import shutil
    import sys
    import tempfile

    from rnapolis import annotator
    from vmon import core, gen3d

    d = tempfile.mkdtemp(prefix="vmon-c04-")
    try:
        pc = os.path.join(d, "out.csv")
        for fn in case["files"]:
            old = sys.argv
            sys.argv = ["annotator", "--csv", pc, os.path.join(core.REPO, fn)]
            try:
                with contextlib.redirect_stdout(io.StringIO()):
                    annotator.main()
                err = None
            except BaseException as e:
                err = repr(e)
            finally:
                sys.argv = old
            want = sorted((s.nt1.full_name, s.nt2.full_name, s.topology.value) for s in annotator.find_stackings(gen3d.load(fn, 1), 1))
            rows = list(csv.reader(open(pc)))[1:] if os.path.exists(pc) else []
            got = sorted((r[0], r[1], r[3]) for r in rows if len(r) >= 4 and r[2] == "stacking")
            rec.mark_nontrivial(bool(want))
            rec.check("cli.csv-lists-each-stacking-once", err is None and got == want,
                      lambda: {"file": fn, "files": case["files"], "error": err, "csv-stacking-rows": len(got), "stackings": len(want), "extra": [g for g in got if g not in want][:4]})
    finally:
        shutil.rmtree(d, ignore_errors=True)


def run_case(case, rec):
    if case["family"] == "cli-csv-path-reused":
        return _cli_csv(case, rec)
    work3d.run_case(ID, case, rec, _call)


def classify(v):
    return v.get("mechanism")
