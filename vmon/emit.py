"""Independent emitter: abstract atom table -> PDB text / mmCIF text.

Shares no code with rnapolis.parser_v2.write_*.  A table is a list of dict rows:
  rec ("ATOM"/"HETATM"), serial, name, alt (str|None), resname, chain, resseq,
  icode (str|None), x, y, z, occ (float|None), b (float|None), element (str|None),
  charge (str|None, PDB style "1+"), model (int)
"""
import io
import os
import tempfile

from vmon.oracles import ciftok


def atom_name_field(name):
    if len(name) < 4 and name[:1].isalpha():
        return (" " + name).ljust(4)
    return name.ljust(4)


def pdb_atom_line(r):
    occ = 1.0 if r["occ"] is None else r["occ"]
    b = 0.0 if r["b"] is None else r["b"]
    head = f"{r['rec']:<6}{r['serial']:>5} "
    if r["serial"] > 99999 and r["rec"] == "ATOM":
        # de-facto extension written by several programs for very large systems: the sixth digit takes the blank
        # column after the record name; every later column stays where it is
        head = f"ATOM {r['serial']:>6} "
    line = (
        f"{head}{atom_name_field(r['name'])}{(r['alt'] or ' ')[:1]}{r['resname']:>3} "
        f"{(r['chain'] or ' ')[:1]}{r['resseq']:>4}{(r['icode'] or ' ')[:1]}   "
        f"{r['x']:8.3f}{r['y']:8.3f}{r['z']:8.3f}{occ:6.2f}{b:6.2f}          "
        f"{(r['element'] or ''):>2}{(r['charge'] or ''):>2}"
    )
    return line.ljust(80)


def fits_pdb(rows):
    if len(rows) > 99000:
        return False
    for r in rows:
        if len(r["chain"] or " ") != 1 or not (-999 <= r["resseq"] <= 9999) or len(r["name"]) > 4 or len(r["resname"]) > 3:
            return False
        if not (0 < r["serial"] <= 99999):
            return False
        if any(not (-999.999 <= r[k] <= 9999.999) for k in "xyz"):
            return False
        if r["icode"] is not None and len(r["icode"]) != 1:
            return False
        if r["alt"] is not None and len(r["alt"]) != 1:
            return False
    return True


def emit_pdb(rows, models=True, ter=True, end=True, end_after_each_model=False):
    """end_after_each_model: every model is closed by ENDMDL + END (frames of a trajectory / complete single-model
    entries concatenated into one file)."""
    out = []
    last_model = None
    last_chain = None
    last = None
    for r in rows:
        if models and r["model"] != last_model:
            if last_model is not None:
                if ter and last is not None:
                    out.append(_ter(last))
                out.append("ENDMDL".ljust(80))
                if end_after_each_model:
                    out.append("END".ljust(80))
            out.append(f"MODEL     {r['model']:>4}".ljust(80))
            last_model = r["model"]
            last_chain = None
            last = None
        if ter and last_chain is not None and r["chain"] != last_chain and last is not None:
            out.append(_ter(last))
        out.append(pdb_atom_line(r))
        last_chain = r["chain"]
        last = r
    if ter and last is not None:
        out.append(_ter(last))
    if models and last_model is not None:
        out.append("ENDMDL".ljust(80))
    if end:
        out.append("END".ljust(80))
    return "\n".join(out) + "\n"


def _ter(r):
    return f"TER   {r['serial'] + 1:>5}      {r['resname']:>3} {(r['chain'] or ' ')[:1]}{r['resseq']:>4}{(r['icode'] or ' ')[:1]}".ljust(80)


CIF_COLS = [
    "group_PDB", "id", "type_symbol", "label_atom_id", "label_alt_id", "label_comp_id", "label_asym_id", "label_entity_id",
    "label_seq_id", "pdbx_PDB_ins_code", "Cartn_x", "Cartn_y", "Cartn_z", "occupancy", "B_iso_or_equiv", "pdbx_formal_charge",
    "auth_seq_id", "auth_comp_id", "auth_asym_id", "auth_atom_id", "pdbx_PDB_model_num",
]


def charge_to_cif(c):
    """PDB '1+' / '2-' -> mmCIF integer string."""
    if c is None:
        return None
    c = c.strip()
    if len(c) == 2 and c[0].isdigit() and c[1] in "+-":
        return ("-" if c[1] == "-" else "") + c[0]
    return c


def _occ_spelling(v, k):
    """The same number in the other spellings the mmCIF number grammar allows (leading sign, exponent, no leading
    zero); k selects one."""
    k = k % 5
    if k == 1:
        return f"+{v:.2f}"
    if k == 2:
        return f"{v:.1E}" if float(f"{v:.1E}") == v else f"{v:.2f}"
    if k == 3 and 0 < v < 1:
        return f"{v:.2f}"[1:]
    if k == 4:
        return f"{v:.3e}" if float(f"{v:.3e}") == v else f"{v:.2f}"
    return f"{v:.2f}"


def emit_cif(rows, null="?", nulls=None, extra_cats=None, name="vmon", label_seq="index", drop_cols=(), label_asym="auth", col_order=None, decimals=3, occ_spellings=False):
    # col_order: a permutation of CIF_COLS (mmCIF does not prescribe an item order); decimals: coordinate precision
    """nulls: optional {column: marker} overriding the default null marker.
    label_asym="wide": label_asym_id is a two-character id (as in entries with more than 26 asym units)
    and label_seq_id is offset beyond 9999, while the author identifiers are the table's own."""
    nulls = nulls or {}

    def nv(col, v):
        if v is None:
            return nulls.get(col, null)
        return v

    seqidx = {}
    counters = {}
    table = []
    for r in rows:
        key = (r["model"], r["chain"], r["resseq"], r["icode"], r["resname"])
        if label_seq == "index":
            ck = (r["model"], r["chain"])
            if key not in seqidx:
                counters[ck] = counters.get(ck, 0) + 1
                seqidx[key] = counters[ck]
            lseq = str(seqidx[key])
        else:
            lseq = str(r["resseq"])
        lasym = r["chain"] if (r["chain"] or "").strip() else None
        if label_asym == "wide" and lasym is not None:
            lasym = "A" + lasym
            lseq = str(int(lseq) + 10000) if lseq.lstrip("-").isdigit() else lseq
        vals = {
            "group_PDB": r["rec"], "id": str(r["serial"]), "type_symbol": nv("type_symbol", r["element"]), "label_atom_id": r["name"],
            "label_alt_id": nv("label_alt_id", r["alt"]), "label_comp_id": r.get("label_resname", r["resname"]), "label_asym_id": nv("label_asym_id", lasym),
            "label_entity_id": "1", "label_seq_id": lseq, "pdbx_PDB_ins_code": nv("pdbx_PDB_ins_code", r["icode"]),
            "Cartn_x": f"{r['x']:.{decimals}f}", "Cartn_y": f"{r['y']:.{decimals}f}", "Cartn_z": f"{r['z']:.{decimals}f}",
            "occupancy": nv("occupancy", None if r["occ"] is None else (_occ_spelling(r["occ"], len(table)) if occ_spellings else f"{r['occ']:.2f}")),
            "B_iso_or_equiv": nv("B_iso_or_equiv", None if r["b"] is None else f"{r['b']:.2f}"),
            "pdbx_formal_charge": nv("pdbx_formal_charge", charge_to_cif(r["charge"])),
            "auth_seq_id": str(r["resseq"]), "auth_comp_id": r["resname"], "auth_asym_id": nv("auth_asym_id", r["chain"] if (r["chain"] or "").strip() else None),
            "auth_atom_id": r["name"], "pdbx_PDB_model_num": str(r["model"]),
        }
        table.append([vals[c] for c in (col_order or CIF_COLS) if c not in drop_cols])
    cols = [c for c in (col_order or CIF_COLS) if c not in drop_cols]
    cats = list(extra_cats or []) + [("atom_site", cols, table, "loop")]
    return ciftok.emit(name, cats)


def rows_from_structure(structure, decimals=3):
    """Abstract table of a parsed Structure3D (auth identity; label ignored)."""
    rows = []
    serial = 0
    for r in structure.residues:
        a0 = r.auth
        for a in r.atoms:
            serial += 1
            if a0 is not None:
                chain, num, icode, name = a0.chain, a0.number, (a0.icode if a0.icode not in (None, " ", "?", ".", "") else None), a0.name
            else:
                chain, num, icode, name = r.label.chain, r.label.number, None, r.label.name
            rows.append({
                "rec": "ATOM", "serial": serial, "name": a.name, "alt": None, "resname": name, "chain": chain, "resseq": num, "icode": icode,
                "x": round(a.x, decimals), "y": round(a.y, decimals), "z": round(a.z, decimals), "occ": 1.0, "b": 0.0,
                "element": a.name.strip("0123456789'")[:1] or None, "charge": None, "model": r.model,
            })
    return rows


_scratch = {}


def scratch_path(suffix):
    """One scratch path per (worker, suffix), reused for every case: files are
    rewritten in place within the same second, so a reader that caches by path
    or modification time is exposed."""
    if "dir" not in _scratch:
        import atexit
        import shutil

        _scratch["dir"] = tempfile.mkdtemp(prefix="vmon-io-")
        atexit.register(shutil.rmtree, _scratch["dir"], True)
    return os.path.join(_scratch["dir"], "input" + suffix)


def read_text(text, suffix, model=None):
    """Push text through the real residue-level reader."""
    from rnapolis import parser

    path = scratch_path(suffix)
    with open(path, "w") as f:
        f.write(text)
    with open(path) as fh:
        return parser.read_3d_structure(fh, model)


def hash_bit(text):
    import hashlib

    return hashlib.blake2b(str(text).encode(), digest_size=1).digest()[0] % 3 != 0


def add_alternate_conformers(rows, seed, major="B"):
    """Give a few residues a second conformer of their base atoms: the original atoms become conformer `major`
    with occupancy 0.65, a copy displaced by ~1.6 A becomes the other conformer with occupancy 0.35 - so the
    best-occupied conformer is not necessarily the one labelled A.  Records of the two conformers alternate atom
    by atom, as deposited files list them."""
    import random

    rng = random.Random(seed)
    keys = []
    for r in rows:
        k = (r["model"], r["chain"], r["resseq"], r["icode"])
        if k not in keys:
            keys.append(k)
    chosen = set(rng.sample(keys, max(1, len(keys) // 8)))
    minor = "A" if major == "B" else "B"
    base_names = {"N1", "C2", "N3", "C4", "C5", "C6", "N7", "C8", "N9", "O6", "N6", "N2", "O2", "O4", "N4"}
    out = []
    for r in rows:
        k = (r["model"], r["chain"], r["resseq"], r["icode"])
        if k in chosen and r["name"] in base_names:
            a = dict(r, alt=minor, occ=0.35, x=round(r["x"] + 1.1, 3), y=round(r["y"] - 0.9, 3), z=round(r["z"] + 0.7, 3))
            b = dict(r, alt=major, occ=0.65)
            out += [a, b] if minor == "A" else [b, a]
        else:
            out.append(dict(r))
    for i, r in enumerate(out, 1):
        r["serial"] = i
    return out


MODIFIED_NAME = {"A": "6MZ", "C": "CBV", "G": "G7M", "U": "4SX"}


def format_twins(structure, altloc_seed=None, edges_seed=None, modified_seed=None):
    """(structure read from PDB text, structure read from mmCIF text) of the
    same 3-decimal table, or None when the table does not fit PDB limits."""
    rows = rows_from_structure(structure)
    extra = None
    if modified_seed is not None:
        # a single-chain molecule in which a few nucleotides - the LAST one among them - carry names of modified
        # components that do not end in a base letter (HETATM records); the mmCIF member also carries the entity's
        # canonical sequence, as deposited files do, the PDB member has the atoms only
        import random

        if len({r["chain"] for r in rows}) != 1:
            return None
        letters = {}
        for r in structure.residues:
            if r.auth is not None:
                letters[(r.auth.chain, r.auth.number, r.auth.icode if r.auth.icode not in (" ", "?") else None)] = r.one_letter_name.upper()
        keys = []
        for r in rows:
            k = (r["chain"], r["resseq"], r["icode"])
            if k not in keys:
                keys.append(k)
        if any(letters.get(k) not in MODIFIED_NAME for k in keys):
            return None
        rng = random.Random(modified_seed)
        chosen = set(rng.sample(keys[:-1], min(2, len(keys) - 1))) | {keys[-1]}
        for r in rows:
            k = (r["chain"], r["resseq"], r["icode"])
            if k in chosen:
                r["resname"], r["rec"] = MODIFIED_NAME[letters[k]], "HETATM"
        seq = "".join(letters[k] for k in keys)
        extra = [("entity", ["id", "type"], [["1", "polymer"]], "kv"),
                 ("entity_poly", ["entity_id", "type", "pdbx_seq_one_letter_code_can"], [["1", "polyribonucleotide", seq]], "kv")]
    if edges_seed is not None:
        # fields filled to their edges: five-digit serials touching HETATM, coordinates taking all eight columns,
        # negative residue numbers (see work3d.field_edges_rows)
        import random

        from vmon import work3d

        work3d.field_edges_rows(rows, random.Random(edges_seed))
    if altloc_seed is not None:
        rows = add_alternate_conformers(rows, altloc_seed, major="B" if hash_bit(altloc_seed) else "A")
    if not rows or not fits_pdb(rows):
        return None
    if any(not (r["chain"] or "").strip() for r in rows):
        return None  # a blank PDB chain id has no mmCIF representation
    # both readers key residues by identity: identities must be unique
    a = read_text(emit_pdb(rows), ".pdb")
    b = read_text(emit_cif(rows, extra_cats=extra), ".cif")
    return a, b


def text_variant(text, kind, fmt):
    """The same records as other programs and editors leave them (kind 0 = unchanged): Windows line endings, trailing
    blanks stripped (PDB lines shorter than 80 columns), no final newline, tabs between mmCIF values."""
    lines = text.splitlines()
    if kind == 1:
        return "\r\n".join(lines) + "\r\n"
    if kind == 2:
        return "\n".join(l.rstrip() for l in lines) + "\n"
    if kind == 3:
        return "\n".join(lines)
    if kind == 4 and fmt == "cif":
        return "\n".join(l.replace(" ", "\t") if l.startswith(("ATOM", "HETATM")) and "'" not in l and '"' not in l else l for l in lines) + "\n"
    return text
