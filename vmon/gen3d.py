"""3D workload generation: corpus loading, perturbations, pair placements.
Everything is driven by small JSON descriptors so that a case can be replayed."""
import os
import random

import numpy as np

from vmon import core
from vmon.oracles import geom

_cache = {}


def corpus_files(exts=(".cif", ".pdb", ".cif.gz")):
    d = os.path.join(core.REPO, "tests")
    out = []
    for fn in sorted(os.listdir(d)):
        if fn.endswith(exts) and os.path.getsize(os.path.join(d, fn)) > 0:
            out.append("tests/" + fn)
    return out


def load(rel, model=None):
    """Parsed Structure3D (cached per worker).  model=None -> reader default."""
    from rnapolis import parser
    from rnapolis.util import handle_input_file

    key = (rel, model)
    if key not in _cache:
        f = handle_input_file(os.path.join(core.REPO, rel))
        _cache[key] = parser.read_3d_structure(f, model)
    return _cache[key]


def rebuild(structure, coord_fn=None, keep_res=None, atom_filter=None, atom_order=None, relabel=None, letter_fn=None, model=None):
    """New Structure3D from an existing one with transformed coordinates /
    dropped residues / dropped atoms / shuffled atom order / relabelled ids."""
    from rnapolis import tertiary
    from rnapolis.common import ResidueAuth, ResidueLabel

    residues = []
    for ri, r in enumerate(structure.residues):
        if keep_res is not None and not keep_res(ri, r):
            continue
        label, auth = r.label, r.auth
        if relabel is not None:
            label, auth = relabel(ri, r)
        atoms = []
        src = list(r.atoms)
        if atom_order is not None:
            src = atom_order(ri, src)
        for a in src:
            if atom_filter is not None and not atom_filter(ri, r, a):
                continue
            if coord_fn is not None:
                x, y, z = coord_fn(ri, np.array([a.x, a.y, a.z]))
            else:
                x, y, z = a.x, a.y, a.z
            atoms.append(tertiary.Atom(a.entity_id, label, auth, a.model if model is None else model, a.name, float(x), float(y), float(z), a.occupancy))
        if not atoms:
            continue
        letter = r.one_letter_name if letter_fn is None else letter_fn(ri, r)
        residues.append(tertiary.Residue3D(label, auth, r.model if model is None else model, letter, tuple(atoms)))
    return tertiary.Structure3D(residues)


def apply_ops(structure, ops):
    """ops: list of descriptor dicts applied in order."""
    s = structure
    for op in ops:
        k = op["op"]
        if k == "rigid":
            rng = random.Random(op["seed"])
            R = geom.random_rotation(rng)
            t = np.array(op.get("trans", [0, 0, 0]), dtype=float)
            s = rebuild(s, coord_fn=lambda ri, p, R=R, t=t: R @ p + t)
        elif k == "axisperm":
            R = geom.axis_permutations()[op["k"]]
            t = np.array(op.get("trans", [0, 0, 0]), dtype=float)
            s = rebuild(s, coord_fn=lambda ri, p, R=R, t=t: R @ p + t)
        elif k == "atom-to-origin":
            # a pure translation that puts one base / sugar atom of a random nucleotide EXACTLY on (0, 0, 0)
            rng = random.Random(op["seed"])
            cands = [(r, a) for r in s.residues for a in r.atoms if a.name in ("N1", "N9", "C1'", "C2", "C4", "C6", "N3", "O2'", "P") and len(r.atoms) > 10]
            if cands:
                r0, a0 = rng.choice(cands)
                t = -np.array([a0.x, a0.y, a0.z], dtype=float)
                s = rebuild(s, coord_fn=lambda ri, p, t=t: p + t)
        elif k == "jitter":
            rng = random.Random(op["seed"])
            sig = op["sigma"]
            s = rebuild(s, coord_fn=lambda ri, p: p + np.array([rng.gauss(0, sig) for _ in range(3)]))
        elif k == "scale":
            f = op["f"]
            s = rebuild(s, coord_fn=lambda ri, p: p * f)
        elif k == "append-nucleotide":
            # a copy of the first nucleotide, moved 60 A away, appended at the END of the residue list under the same chain
            # with a number `number_below_first` below the first one (a nucleotide ligand listed after the polymer)
            from rnapolis import tertiary
            from rnapolis.common import ResidueAuth, ResidueLabel

            nts = [r for r in s.residues if r.is_nucleotide and r.auth is not None]
            if nts:
                r0 = nts[0]
                num = r0.auth.number - op["number_below_first"]
                auth = ResidueAuth(r0.auth.chain, num, None, r0.auth.name)
                lab = ResidueLabel(r0.label.chain, (r0.label.number or 0) - op["number_below_first"], r0.label.name) if r0.label is not None else None
                atoms = tuple(tertiary.Atom(a.entity_id, lab, auth, a.model, a.name, a.x + 60.0, a.y + 60.0, a.z, a.occupancy) for a in r0.atoms)
                s = tertiary.Structure3D(list(s.residues) + [tertiary.Residue3D(lab, auth, r0.model, r0.one_letter_name, atoms)])
        elif k == "copies":
            # n copies of the structure far from one another (a crystal-like assembly), chains renamed per copy
            from rnapolis import tertiary
            from rnapolis.common import ResidueAuth, ResidueLabel

            res = []
            for c in range(op["n"]):
                off = np.array([op.get("spacing", 400.0) * (c % 3), op.get("spacing", 400.0) * (c // 3 % 3), op.get("spacing", 400.0) * (c // 9)])

                def relabel(ri, r, c=c):
                    lab = ResidueLabel(f"{r.label.chain}{c}", r.label.number, r.label.name) if r.label is not None else None
                    auth = ResidueAuth(f"{r.auth.chain}{c}", r.auth.number, r.auth.icode, r.auth.name) if r.auth is not None else None
                    return lab, auth

                res += list(rebuild(s, coord_fn=lambda ri, p, off=off: p + off, relabel=relabel).residues)
            s = tertiary.Structure3D(res)
        elif k == "base-only":
            # a share of the nucleotides is reduced to the base (plus C1'): partially built models, free bases
            rng = random.Random(op["seed"])
            victims = {i for i in range(len(s.residues)) if rng.random() < op["frac"]}
            s = rebuild(s, atom_filter=lambda ri, r, a: ri not in victims or not (a.name.endswith("'") or a.name in ("P", "OP1", "OP2", "OP3", "O1P", "O2P", "O3P")) or a.name == "C1'")
        elif k == "u-to-t":
            # every uridine is presented as a thymidine (residue name DT, one-letter name T; the atoms stay, so the
            # methyl carbon is simply not modelled): the DNA rows of every table are used with RNA geometries
            from rnapolis.common import ResidueAuth, ResidueLabel

            def relabel(ri, r):
                if r.one_letter_name != "U":
                    return r.label, r.auth
                lab = ResidueLabel(r.label.chain, r.label.number, "DT") if r.label is not None else None
                auth = ResidueAuth(r.auth.chain, r.auth.number, r.auth.icode, "DT") if r.auth is not None else None
                return lab, auth

            s = rebuild(s, relabel=relabel, letter_fn=lambda ri, r: "T" if r.one_letter_name == "U" else r.one_letter_name)
        elif k == "first-n":
            # the first n residues only (n = 0: an empty structure)
            s = rebuild(s, keep_res=lambda ri, r, n=op["n"]: ri < n)
        elif k == "backbone-only":
            # sugar-phosphate backbone without any base atom (coarse-grained / partially built models)
            s = rebuild(s, atom_filter=lambda ri, r, a: a.name.endswith("'") or a.name in ("P", "OP1", "OP2", "OP3"))
        elif k == "thin-res":
            rng = random.Random(op["seed"])
            drop = {i for i in range(len(s.residues)) if rng.random() < op["frac"]}
            s = rebuild(s, keep_res=lambda ri, r: ri not in drop)
        elif k == "thin-atoms":
            rng = random.Random(op["seed"])
            names = op.get("names")
            frac = op["frac"]
            s = rebuild(s, atom_filter=lambda ri, r, a: not ((names is None or a.name in names) and rng.random() < frac))
        elif k == "plane-atoms-only":
            # a fraction of the nucleotides keep, of their base, exactly the three atoms that define its plane
            # (N9 N7 N3 of a purine, N1 C4 O2 of a pyrimidine): the smallest base that still has a centroid and a normal
            rng = random.Random(op["seed"])
            base = {"N1", "C2", "N3", "C4", "C5", "C6", "N7", "C8", "N9", "O6", "N6", "N2", "O2", "O4", "N4", "C7", "C5M"}
            chosen = {ri for ri, r in enumerate(s.residues) if rng.random() < op["frac"]}
            s = rebuild(s, atom_filter=lambda ri, r, a: not (ri in chosen and a.name in base and a.name not in (("N9", "N7", "N3") if r.one_letter_name in "AG" else ("N1", "C4", "O2"))))
        elif k == "shuffle-atoms":
            rng = random.Random(op["seed"])

            def order(ri, atoms):
                atoms = list(atoms)
                rng.shuffle(atoms)
                return atoms

            s = rebuild(s, atom_order=order)
        elif k == "select":
            idx = set(op["residues"])
            s = rebuild(s, keep_res=lambda ri, r: ri in idx)
        elif k == "icodes":
            # runs of consecutive residues of one chain share a number and differ
            # by insertion code only (47, 47A, 47B, ...): order-preserving
            from rnapolis.common import ResidueAuth

            rng = random.Random(op["seed"])
            plan = {}
            i = 0
            res = s.residues
            while i < len(res):
                # "runs": candidate run lengths; long runs (a whole hairpin numbered 47, 47A ... 47Q, as tRNA
                # variable arms are) put base-PAIRED residues on one number
                run = rng.choice(op.get("runs", [1, 1, 2, 3, 4])) if rng.random() < op.get("frac", 0.3) else 1
                j = i
                while j + 1 < len(res) and j + 1 - i < run and res[j + 1].chain == res[i].chain and res[j + 1].auth is not None and res[i].auth is not None and res[j + 1].model == res[i].model:
                    j += 1
                if j > i and (res[i].auth.icode in (None, " ", "?")):
                    for t in range(i, j + 1):
                        plan[t] = (res[i].auth.number, None if t == i else "ABCDEFGHIJKLMNOPQRSTUVWXYZ"[t - i - 1])
                i = j + 1

            def relabel(ri, r, plan=plan):
                if ri in plan and r.auth is not None:
                    num, ic = plan[ri]
                    return r.label, ResidueAuth(r.auth.chain, num, ic, r.auth.name)
                return r.label, r.auth

            s = rebuild(s, relabel=relabel)
        elif k == "mixed-case-chains":
            # chains renamed c, D, a, A, b, E, ... in order of appearance: names that differ by letter case only, and
            # names whose case-sensitive order (D < c) is the reverse of their order when case is ignored
            from rnapolis.common import ResidueAuth, ResidueLabel

            names, seen = ["c", "D", "a", "A", "b", "E", "B", "d", "f", "G"], []
            for r in s.residues:
                if r.chain not in seen:
                    seen.append(r.chain)
            if len(seen) <= len(names):
                new = dict(zip(seen, names))

                def relabel(ri, r, new=new):
                    lab = ResidueLabel(new[r.chain], r.label.number, r.label.name) if r.label is not None else None
                    auth = ResidueAuth(new[r.chain], r.auth.number, r.auth.icode, r.auth.name) if r.auth is not None else None
                    return lab, auth

                s = rebuild(s, relabel=relabel)
        elif k == "renumber":
            # order-preserving renumbering: every chain starts at op["first"]
            # (negative numbers and zero are legitimate PDB/mmCIF residue numbers)
            from rnapolis.common import ResidueAuth, ResidueLabel

            lo = {}
            for r in s.residues:
                n = r.auth.number if r.auth is not None else r.label.number
                lo[r.chain] = min(lo.get(r.chain, n), n)
            first = op["first"]

            def relabel(ri, r, lo=lo, first=first):
                d = first - lo[r.chain]
                lab = ResidueLabel(r.label.chain, r.label.number + d, r.label.name) if r.label is not None else None
                auth = ResidueAuth(r.auth.chain, r.auth.number + d, r.auth.icode, r.auth.name) if r.auth is not None else None
                return lab, auth

            s = rebuild(s, relabel=relabel)
        elif k == "split-residue":
            # the base atoms of some nucleotides are listed after the rest of their chain (as files that append
            # alternative conformers / re-refined bases do): the reader then yields TWO Residue3D objects that
            # carry the same identifiers
            from rnapolis import tertiary
            from vmon.oracles import g3d as _g

            rng = random.Random(op["seed"])
            out, tails = [], []
            for r in s.residues:
                base_names = set(_g.BASE_ATOMS.get(r.one_letter_name, []))
                base = tuple(a for a in r.atoms if a.name in base_names)
                rest = tuple(a for a in r.atoms if a.name not in base_names)
                if base and rest and rng.random() < op.get("frac", 0.2):
                    out.append(tertiary.Residue3D(r.label, r.auth, r.model, r.one_letter_name, rest))
                    tails.append(tertiary.Residue3D(r.label, r.auth, r.model, r.one_letter_name, base))
                else:
                    out.append(r)
            s = tertiary.Structure3D(out + tails)
        elif k == "auth-collide":
            # every chain gets the author chain id of the first one while the label identifiers stay distinct (a
            # converted PDB file with a repeated chain id): different nucleotides share author chain / number / icode
            from rnapolis.common import ResidueAuth

            first = next((r.auth.chain for r in s.residues if r.auth is not None), None)

            def relabel(ri, r, first=first):
                if r.auth is None or r.label is None:
                    return r.label, r.auth
                return r.label, ResidueAuth(first, r.auth.number, r.auth.icode, r.auth.name)

            s = rebuild(s, relabel=relabel)
        elif k == "displaced-copies":
            # the structure plus n slightly displaced copies stored as further chains of the same model (overlapping
            # conformers / superposed ensemble members): many more neighbours per atom and per base than usual
            from rnapolis import tertiary
            from rnapolis.common import ResidueAuth, ResidueLabel

            rng = random.Random(op["seed"])
            chains = []
            for r in s.residues:
                if r.chain not in chains:
                    chains.append(r.chain)
            pool = [c for c in "QRSTUVWXYZqrstuvwxyz" if c not in chains]
            res = list(s.residues)
            for c in range(op.get("n", 3)):
                d = np.array([rng.gauss(0, 1) for _ in range(3)])
                d = d / np.linalg.norm(d) * rng.uniform(0.7, 1.3)
                ren = {ch: pool[(c * len(chains) + k2) % len(pool)] for k2, ch in enumerate(chains)}

                def relabel(ri, r, ren=ren):
                    lab = ResidueLabel(ren[r.chain], r.label.number, r.label.name) if r.label is not None else None
                    auth = ResidueAuth(ren[r.chain], r.auth.number, r.auth.icode, r.auth.name) if r.auth is not None else None
                    return lab, auth

                res += list(rebuild(s, coord_fn=lambda ri, p, d=d: p + d, relabel=relabel).residues)
            s = tertiary.Structure3D(res)
        elif k == "split-chain":
            # the last `tail` residues of the first chain are listed after the next chain
            # (modified residues / ligands of a chain listed at the end of a file): chain A, chain B, chain A
            from rnapolis import tertiary

            res = list(s.residues)
            chains = []
            for r in res:
                if r.chain not in chains:
                    chains.append(r.chain)
            if len(chains) >= 2:
                first = [r for r in res if r.chain == chains[0]]
                tail = first[-min(op.get("tail", 4), max(1, len(first) // 2)):]
                tails = set(map(id, tail))
                out, done = [], False
                for r in res:
                    if id(r) in tails:
                        continue
                    out.append(r)
                last_second = max(i for i, r in enumerate(out) if r.chain == chains[1])
                out[last_second + 1:last_second + 1] = tail
                s = tertiary.Structure3D(out)
        elif k == "reverse-res":
            from rnapolis import tertiary

            s = tertiary.Structure3D(list(reversed(s.residues)))
        elif k == "chain-order":
            from rnapolis import tertiary

            chains = []
            for r in s.residues:
                if r.chain not in chains:
                    chains.append(r.chain)
            rng = random.Random(op["seed"])
            order = sorted(chains, reverse=True) if op.get("mode") == "reverse" else rng.sample(chains, len(chains))
            s = tertiary.Structure3D([r for c in order for r in s.residues if r.chain == c])
        elif k == "round":
            nd = op["decimals"]
            s = rebuild(s, coord_fn=lambda ri, p: np.round(p, nd))
        else:
            raise KeyError(k)
    return s


def base_centroid(r):
    from vmon.oracles import g3d

    names = g3d.BASE_ATOMS.get(r.one_letter_name, [])
    pts = [np.array([a.x, a.y, a.z]) for a in r.atoms if a.name in names]
    return np.mean(pts, axis=0) if pts else None


def close_pairs(structure, cutoff=11.0, max_pairs=4000):
    """Indices (i<j) of residue pairs whose base centroids are within cutoff."""
    key = ("cp", id(structure), cutoff)
    if key in _cache and _cache[key][0] is structure:  # the entry holds the structure: its id cannot be reused
        return _cache[key][1]
    cents = [(i, base_centroid(r)) for i, r in enumerate(structure.residues)]
    cents = [(i, c) for i, c in cents if c is not None]
    out = []
    if len(cents) >= 2:
        C = np.array([c for _, c in cents])
        D = np.sqrt(((C[:, None, :] - C[None, :, :]) ** 2).sum(-1))
        ii, jj = np.nonzero(D < cutoff)
        for a, b in zip(ii, jj):
            if a < b and structure.residues[cents[a][0]].model == structure.residues[cents[b][0]].model:
                out.append((cents[a][0], cents[b][0]))
    out = out[:max_pairs]
    _cache[key] = (structure, out)
    return out


def place_pair(structure, i, j, motion):
    """Two-residue structure: residue i as is, residue j moved rigidly.
    motion = {"pull": t, "twist": deg, "tilt": deg, "slide": t, "seed": s}"""
    ri, rj = structure.residues[i], structure.residues[j]
    ci, cj = base_centroid(ri), base_centroid(rj)
    axis = cj - ci
    d = np.linalg.norm(axis)
    axis = axis / d if d > 1e-9 else np.array([1.0, 0, 0])
    rng = random.Random(motion.get("seed", 0))
    # a deterministic unit vector perpendicular to the axis
    tmp = np.array([rng.gauss(0, 1) for _ in range(3)])
    perp = np.cross(axis, tmp)
    perp /= np.linalg.norm(perp)

    def rot(u, deg):
        th = np.radians(deg)
        K = np.array([[0, -u[2], u[1]], [u[2], 0, -u[0]], [-u[1], u[0], 0]])
        return np.eye(3) + np.sin(th) * K + (1 - np.cos(th)) * (K @ K)

    R = rot(perp, motion.get("tilt", 0.0)) @ rot(axis, motion.get("twist", 0.0))
    shift = axis * motion.get("pull", 0.0) + perp * motion.get("slide", 0.0)

    def fn(ri_, p):
        if ri_ != j:
            return p
        return R @ (p - cj) + cj + shift

    s = rebuild(structure, coord_fn=fn, keep_res=lambda k, r: k in (i, j))
    return s


def translated_copy(structure, i, vec, newnum_offset=1000):
    """Residue i plus an exactly translated copy (parallel normals)."""
    from rnapolis.common import ResidueAuth, ResidueLabel

    def relabel(ri, r):
        if ri == 0:
            return r.label, r.auth
        lab = ResidueLabel(r.label.chain, r.label.number + newnum_offset, r.label.name) if r.label is not None else None
        auth = ResidueAuth(r.auth.chain, r.auth.number + newnum_offset, r.auth.icode, r.auth.name) if r.auth is not None else None
        return lab, auth

    from rnapolis import tertiary

    one = structure.residues[i]
    two = tertiary.Structure3D([one, one])
    v = np.array(vec, dtype=float)
    return rebuild(two, coord_fn=lambda ri, p: p if ri == 0 else p + v, relabel=relabel)
