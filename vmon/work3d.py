"""Shared 3D workload for C03 / C04 / C11 (same executions, different clauses)."""
import os
import random

import numpy as np

from vmon import core, gen3d, mon3d

SMALL = ["tests/1A1T_1_B.cif", "tests/1DFU_1_M-N.cif", "tests/1E7K_1_C.cif", "tests/1HMH_1_E.cif", "tests/4WTI_1_T-P.cif", "tests/6INQ.cif", "tests/184D.cif", "tests/1ATO.pdb", "tests/488d.pdb"]


def cases(prop, shard, nshards, seed, tier, want_models=False):
    k = 0

    def mine():
        nonlocal k
        k += 1
        return (k - 1) % nshards == shard

    files = gen3d.corpus_files()
    for fn in files:
        if mine():
            yield {"family": "corpus", "file": fn, "ops": []}
    if want_models:
        for fn in ("tests/2HY9.cif", "tests/6RS3.cif"):
            for m in range(2, 11):
                if tier == "quick" and m not in (2, 7):
                    continue
                if mine():
                    yield {"family": "corpus-model", "file": fn, "model": m, "ops": []}
    for fn in ("tests/1ehz-assembly-1.cif", "tests/4WTI_1_T-P.cif", "tests/1A1T_1_B.cif", "tests/4qln.cif", "tests/1a9n.cif"):
        for hops in ([{"op": "icodes", "seed": "h1", "frac": 0.8}], [{"op": "reverse-res"}], [{"op": "chain-order", "seed": "h2", "mode": "reverse"}],
                     [{"op": "icodes", "seed": "h3", "frac": 0.5}, {"op": "reverse-res"}]):
            if fn.endswith("1a9n.cif") and tier == "quick" and hops[0]["op"] != "chain-order":
                continue
            if mine():
                yield {"family": "hostile-" + hops[0]["op"], "file": fn, "ops": hops}
    # chain names that differ by letter case only (a / A) or whose order depends on whether case counts (D before c)
    for fn in ("tests/488d.pdb", "tests/1DFU_1_M-N.cif", "tests/4WTI_1_T-P.cif", "tests/4gqj-assembly1.cif"):
        for hops in ([{"op": "mixed-case-chains"}], [{"op": "mixed-case-chains"}, {"op": "chain-order", "seed": "mc", "mode": "reverse"}]):
            if mine():
                yield {"family": "hostile-mixed-case-chains", "file": fn, "ops": hops}
    # all models of an NMR ensemble in ONE Structure3D, an explicit model asked for (first, middle, last); also with
    # the models numbered from 0, so that the requested number can be 0
    for fn in ("tests/2HY9.cif", "tests/6RS3.cif"):
        for base in (1, 0):
            for m in ((1, 4, 10) if tier == "quick" else range(1, 11)):
                if mine():
                    yield {"family": "ensemble-in-one-structure", "file": fn, "first_model_number": base, "model": m - 1 + base, "ops": []}
    # models of different composition in one Structure3D (two different molecules as models 1 and 2), asked about in
    # both orders on the same object
    for a, b in (("tests/1E7K_1_C.cif", "tests/1A1T_1_B.cif"), ("tests/1A1T_1_B.cif", "tests/184D.cif")):
        for order in ((1, 2, 1), (2, 1, 2)):
            if mine():
                yield {"family": "different-molecules-as-models", "file": a, "other": b, "order": list(order), "ops": []}
    # crowded: the structure plus displaced copies (up to ~20 base centroids within 6 A, > 15 donor/acceptor atoms within 4 A)
    for fn in ("tests/1ATO.pdb", "tests/1A1T_1_B.cif", "tests/1DFU_1_M-N.cif"):
        for t in range(1 if tier == "quick" else 4):
            if mine():
                yield {"family": "hostile-displaced-copies", "file": fn, "ops": [{"op": "displaced-copies", "seed": f"{seed}:crowd:{fn}:{t}", "n": 3}]}
    if prop == "C03":
        # different nucleotides that share author chain, number and insertion code (labels differ)
        for fn in ("tests/4gqj-assembly1.cif", "tests/4WTI_1_T-P.cif", "tests/1DFU_1_M-N.cif", "tests/184D.cif", "tests/1JJP.cif"):
            if mine():
                yield {"family": "hostile-auth-collide", "file": fn, "ops": [{"op": "auth-collide"}]}
    # uridines presented as thymidines (the T rows of the donor / acceptor / edge / Saenger tables with RNA geometry,
    # G.T wobbles in both orientations), and nucleotides reduced to their base
    for fn in ("tests/4qln.cif", "tests/1ehz-assembly-1.cif", "tests/1E7K_1_C.cif", "tests/1A1T_1_B.cif"):
        for hops in ([{"op": "u-to-t"}], [{"op": "u-to-t"}, {"op": "reverse-res"}], [{"op": "base-only", "seed": "bo1", "frac": 0.3}], [{"op": "base-only", "seed": "bo2", "frac": 1.0}],
                     [{"op": "plane-atoms-only", "seed": "pa1", "frac": 0.4}]):
            if tier == "quick" and fn.endswith(("1E7K_1_C.cif", "1A1T_1_B.cif")) and hops[0]["op"] == "base-only" and hops[0]["frac"] == 1.0:
                continue
            if mine():
                yield {"family": "hostile-" + hops[0]["op"], "file": fn, "ops": hops}
    # size: more than 65 535 residues in one model (two copies of an RNA chain with 65 600 waters listed between them,
    # read from PDB text), and more than 65 535 donor / acceptor atoms (twenty copies of a 327-nucleotide RNA)
    if prop == "C03" and mine():
        yield {"family": "more-than-65535-residues", "file": "tests/4qln.pdb", "ops": []}
    if prop == "C11" and mine():
        yield {"family": "twenty-copies", "file": "tests/6g90_1.cif", "ops": []}
    # degenerate inputs: nothing to annotate (no residue, one residue, one donor/acceptor atom at most, no base atoms)
    for hops in ([{"op": "first-n", "n": 0}], [{"op": "first-n", "n": 1}], [{"op": "backbone-only"}], [{"op": "first-n", "n": 2}, {"op": "thin-atoms", "seed": "d", "frac": 1.0, "names": ["N1", "N2", "N3", "N4", "N6", "N7", "O2", "O4", "O6", "O2'", "O4'", "OP1", "OP2", "O3'", "O5'"]}]):
        if mine():
            yield {"family": "degenerate-" + hops[-1]["op"], "file": "tests/1A1T_1_B.cif", "ops": hops}
    # through the real reader: PDB / mmCIF text whose fields are filled to their edges - five-digit serials touching
    # the record name (HETATM10001), modified nucleotides as HETATM, coordinates <= -100 / >= 1000 that fill their eight
    # columns, negative residue numbers, Windows line endings
    for t, fn in enumerate(("tests/1ehz-assembly-1.cif", "tests/1ATO.pdb", "tests/488d.pdb", "tests/4qln.pdb", "tests/1E7K_1_C.cif", "tests/1A1T_1_B.cif")):
        for v in list(range(2 if tier == "quick" else 6)) + [9]:
            # v == 9: PDB text whose atom serial numbers pass 99999 half-way (ATOM 100000: the sixth digit takes the
            # blank column after the record name, as several programs write very large systems)
            if mine():
                yield {"family": "through-reader-field-edges", "file": fn, "t": t * 10 + v, "ops": []}
    # through the real reader: mmCIF text of a single-chain molecule that carries the entity's canonical sequence
    # (_entity_poly), in which the first, the last and two inner nucleotides are modified components whose NAMES say
    # nothing reliable about the base (8AN, C5N, G7N, U8N): the base of every residue is the one the sequence gives
    for t, fn in enumerate(("tests/1A1T_1_B.cif", "tests/1E7K_1_C.cif", "tests/1ATO.pdb", "tests/1DFU_1_M-N.cif")):
        if mine():
            yield {"family": "through-reader-canonical-sequence", "file": fn, "t": t, "ops": []}
    # through the table-level reader, the fitting to PDB limits and the PDB writer, then the residue-level reader: models
    # that are not numbered 1..N (a selection from an ensemble), chains of mixed name lengths (B next to A-2), insertion
    # codes under a chain name that needs renaming
    for kind in ("ensemble-selection", "zero-based-ensemble", "mixed-chain-name-lengths", "insertion-codes-and-long-chain-name"):
        if mine():
            yield {"family": "through-the-table-writer", "kind": kind, "file": {"ensemble-selection": "tests/2HY9.cif", "zero-based-ensemble": "tests/6RS3.cif", "mixed-chain-name-lengths": "tests/4gqj-assembly1.cif",
                                                                                  "insertion-codes-and-long-chain-name": "tests/1ehz-assembly-1.cif"}[kind], "ops": []}
    # through the real reader: the text of a structure in which a few residues have a nearly superposed second copy
    # (a disorder deposited as two chains, as B/D of 488d.pdb) with equal or unequal occupancies - what the reader
    # keeps of the two copies is what gets annotated
    for t in range(12 if tier == "quick" else 80):
        if mine():
            yield {"family": "through-reader-superposed-copies", "file": SMALL[t % len(SMALL)], "t": t, "ops": []}
    if mine():
        yield {"family": "through-reader-superposed-copies", "file": "tests/488d.pdb", "t": "as-deposited-with-equal-occupancies", "ops": []}
    nvar = 200 if tier == "quick" else 4000
    for i in range(nvar):
        if not mine():
            continue
        rng = random.Random(f"{seed}:{prop}:v:{i}")
        pool = [f for f in files if os.path.getsize(os.path.join(core.REPO, f)) < (700_000 if tier == "quick" else 10**9) and not f.endswith(("2HY9.cif", "6RS3.cif"))]
        fn = rng.choice(pool)
        kind = rng.choice(["rigid", "axisperm", "jitter", "thin-res", "thin-atoms", "thin-key-atoms", "scale", "combo", "icodes", "icodes", "reverse-res", "chain-order"])
        sd = f"{seed}:{prop}:{i}"
        if kind == "rigid":
            ops = [{"op": "rigid", "seed": sd, "trans": [rng.uniform(-500, 500) for _ in range(3)]}]
        elif kind == "axisperm":
            ops = [{"op": "axisperm", "k": rng.randrange(24), "trans": [rng.choice([0.0, 100.0, -500.0]) for _ in range(3)]}]
        elif kind == "jitter":
            ops = [{"op": "jitter", "seed": sd, "sigma": rng.choice([0.01, 0.05, 0.2])}]
        elif kind == "thin-res":
            ops = [{"op": "thin-res", "seed": sd, "frac": rng.uniform(0.05, 0.3)}]
        elif kind == "thin-atoms":
            ops = [{"op": "thin-atoms", "seed": sd, "frac": rng.uniform(0.02, 0.15)}]
        elif kind == "thin-key-atoms":
            ops = [{"op": "thin-atoms", "seed": sd, "frac": 0.3, "names": ["N1", "C6", "N9", "C1'", "N3", "N7", "O2", "C4", "O2'"]}]
        elif kind == "scale":
            ops = [{"op": "scale", "f": rng.uniform(0.8, 1.0)}]
        elif kind == "icodes":
            ops = [{"op": "icodes", "seed": sd, "frac": rng.choice([0.3, 0.8])}]
        elif kind == "reverse-res":
            ops = [{"op": "reverse-res"}]
        elif kind == "chain-order":
            ops = [{"op": "chain-order", "seed": sd, "mode": rng.choice(["reverse", "random"])}] + ([{"op": "icodes", "seed": sd, "frac": 0.3}] if rng.random() < 0.5 else [])
        else:
            ops = [{"op": "jitter", "seed": sd, "sigma": 0.1}, {"op": "rigid", "seed": sd + "r", "trans": [10.0, -20.0, 30.0]}, {"op": "thin-res", "seed": sd, "frac": 0.1}]
        yield {"family": "perturbed-" + kind, "file": fn, "ops": ops}
    nplace = 1000 if tier == "quick" else 20000
    batch = 25
    for b in range(nplace // batch):
        if mine():
            yield {"family": "placement-batch", "b": b, "count": batch}
    for b in range(16 if tier == "quick" else 200):
        if mine():
            yield {"family": "threshold-grazing-placements", "b": b, "count": 6}
    ntr = 8 if tier == "quick" else 80
    for b in range(ntr):
        if mine():
            yield {"family": "translated-copies", "b": b, "count": 25}


def placements(seed, prop, case):
    """Yield (descriptor, structure) for a placement batch."""
    files = [f for f in gen3d.corpus_files() if f in SMALL or f.endswith(("1ehz-assembly-1.cif", "4qln.cif", "1JJP.cif"))]
    rng = random.Random(f"{seed}:{prop}:p:{case['b']}")
    fn = rng.choice(files)
    s = gen3d.load(fn)
    pairs = gen3d.close_pairs(s)
    if not pairs:
        return
    for t in range(case["count"]):
        i, j = rng.choice(pairs)
        kind = rng.choice(["pull", "twist", "tilt", "slide", "mix", "mix"])
        m = {"seed": f"{seed}:{case['b']}:{t}"}
        if kind in ("pull", "mix"):
            m["pull"] = rng.uniform(-1.0, 2.5)
        if kind in ("twist", "mix"):
            m["twist"] = rng.uniform(-180, 180)
        if kind in ("tilt", "mix"):
            m["tilt"] = rng.uniform(-60, 60)
        if kind in ("slide",) or (kind == "mix" and rng.random() < 0.5):
            m["slide"] = rng.uniform(-6, 6)
        yield {"file": fn, "i": i, "j": j, "motion": m}, gen3d.place_pair(s, i, j, m)


def grazing(seed, prop, case):
    """Two-residue placements in which ONE decision quantity of one donor-acceptor contact (its distance, or the angle to
    one of the two base normals) sits a prescribed small amount - 2e-3, 2e-4 or 2e-5 (A / degrees) - on either side of
    its threshold (4.0 A, 50 or 130 degrees): found by scanning one motion parameter for a crossing and bisecting on
    the independent evaluator's value of that quantity.  Optionally the pair is carried ~9000 A from the origin, where
    single-precision arithmetic is worth 1e-3 A."""
    from vmon.oracles import g3d

    files = [f for f in gen3d.corpus_files() if f in SMALL or f.endswith(("1ehz-assembly-1.cif", "4qln.cif"))]
    rng = random.Random(f"{seed}:{prop}:graze:{case['b']}")
    fn = rng.choice(files)
    s = gen3d.load(fn)
    pairs = gen3d.close_pairs(s)
    if not pairs:
        return
    produced = 0
    for attempt in range(case["count"] * 6):
        if produced >= case["count"]:
            break
        i, j = rng.choice(pairs)
        base = {"seed": f"{seed}:{case['b']}:{attempt}", "pull": rng.uniform(-0.5, 1.5), "twist": rng.uniform(-40, 40), "tilt": rng.uniform(-25, 25)}
        param = rng.choice(["pull", "tilt", "twist", "slide"])
        lo, hi = {"pull": (-1.0, 3.0), "tilt": (-70.0, 70.0), "twist": (-180.0, 180.0), "slide": (-5.0, 5.0)}[param]
        what = rng.choice(["dist", "ang1", "ang2", "ang1", "ang2"])
        if prop == "C11" and attempt % 2 == 0:
            what = "dist"
        lo, hi = (-2.0, 5.0) if (param == "pull" and prop == "C04") else (lo, hi)

        backbone = prop == "C11" and attempt % 2 == 0
        stacking = prop == "C04" or (prop == "C11" and attempt % 4 == 1)

        class _BC:  # a base-donor ... backbone-oxygen contact seen as the same kind of record (distance only)
            def __init__(self, d):
                self.dist, self.ang1, self.ang2 = d, None, None

        def contacts(t):
            st = gen3d.place_pair(s, i, j, dict(base, **{param: t}))
            res = g3d.snapshot(st)
            if stacking:
                # the stacking decision quantities of the pair: centroid distance (6 A), angle between the normals
                # (35 degrees), offset angle (45 degrees) - carried in the slots dist / ang1 / ang2
                out = {}
                for e in g3d.stacking_candidates(res, reach=9.0):
                    if e.get("normals") and "ang_normals" in e:
                        c = _BC(e["dist"])
                        c.ang1, c.ang2 = e["ang_normals"], e["off_undirected"]
                        out[("stacking", e["i"], e["j"])] = c
                return st, out
            if backbone:
                out = {}
                for (di, ai_), lst in g3d.backbone_contacts(res, g3d.PHOSPHATE_ACCEPTORS + g3d.RIBOSE_ACCEPTORS, reach=6.0).items():
                    for dn, an, d, cls, m in lst:
                        out[(di, ai_, dn, an)] = _BC(d)
                return st, out
            return st, {(c.ai, c.aj): c for c in g3d.hbond_contacts(res, reach=6.0)}

        _, c0 = contacts(base.get(param, 0.0))
        if not c0:
            continue
        key = rng.choice(sorted(c0))
        thr = 4.0 if what == "dist" else rng.choice([50.0, 130.0])
        if stacking:
            thr = {"dist": 6.0, "ang1": 35.0, "ang2": 45.0}[what]

        def q(t):
            st, cs = contacts(t)
            c = cs.get(key)
            if c is None:
                return None, st
            v = c.dist if what == "dist" else (c.ang1 if what == "ang1" else c.ang2)
            return (None if v is None else v - thr), st

        grid = [lo + (hi - lo) * k / 40 for k in range(41)]
        vals = [q(t)[0] for t in grid]
        br = [(grid[k], grid[k + 1]) for k in range(40) if vals[k] is not None and vals[k + 1] is not None and vals[k] * vals[k + 1] < 0]
        if not br:
            continue
        a, b_ = rng.choice(br)
        fa = q(a)[0]
        for _ in range(60):
            m = 0.5 * (a + b_)
            fm = q(m)[0]
            if fm is None:
                break
            if fa * fm <= 0:
                b_ = m
            else:
                a, fa = m, fm
        tstar = 0.5 * (a + b_)
        h = 1e-4 * (hi - lo)
        qa, qb = q(tstar - h)[0], q(tstar + h)[0]
        if qa is None or qb is None or abs(qb - qa) < 1e-9:
            continue
        slope = (qb - qa) / (2 * h)
        far = rng.random() < 0.4
        for delta in (2e-3, -2e-3, 2e-4, -2e-4, 2e-5, -2e-5):
            t = tstar + delta / slope
            for _ in range(4):  # secant refinement onto the wanted offset
                v = q(t)[0]
                if v is None:
                    break
                t -= (v - delta) / slope
            v, st = q(t)
            if v is None or abs(v - delta) > abs(delta) * 0.2:
                continue
            if far:
                off = np.array([9000.0, 8500.0 * (1 if attempt % 2 else -0.1), 9300.0])
                st = gen3d.rebuild(st, coord_fn=lambda ri, p, off=off: p + off)
            yield {"file": fn, "i": i, "j": j, "motion": dict(base, **{param: t}), "grazes": {"contact": key, "quantity": what, "threshold": thr, "offset": v}, "far-from-origin": far}, st
        produced += 1


def translated(seed, prop, case):
    rng = random.Random(f"{seed}:{prop}:t:{case['b']}")
    fn = rng.choice(SMALL)
    s = gen3d.load(fn)
    nts = [i for i, r in enumerate(s.residues) if r.one_letter_name in "ACGUT" and len(r.atoms) > 15]
    if not nts:
        return
    for t in range(case["count"]):
        i = rng.choice(nts)
        kind = rng.random()
        if kind < 0.5:
            vec = [rng.choice([0.0, 3.4, -3.4, 5.0]), rng.choice([0.0, 3.4, 4.5]), rng.choice([3.4, 0.0, -4.0, 5.9])]
        else:
            vec = [rng.uniform(-5, 5) for _ in range(3)]
        if sum(v * v for v in vec) < 1.0:
            vec[2] = 3.4
        yield {"file": fn, "i": i, "vec": vec}, gen3d.translated_copy(s, i, vec)


STANDARD_NAMES = ("A", "C", "G", "U", "DA", "DC", "DG", "DT", "T")


def field_edges_rows(rows, rng):
    """In place: what deposited files of large entries look like.  Returns a description."""
    desc = {}
    for r in rows:
        if r["resname"] not in STANDARD_NAMES:
            r["rec"] = "HETATM"
    off = rng.choice([9990, 9999, 20000, 99999 - len(rows)])
    if off + len(rows) <= 99999:
        for i, r in enumerate(rows, 1):
            r["serial"] = i + off
        desc["serials-from"] = off + 1
    shift = rng.choice([(-160.0, 0.0, 0.0), (-400.0, -250.0, -120.0), (1200.0, 1500.0, 2000.0), (-130.0, 1100.0, -99.5), (0.0, 0.0, 0.0)])
    for r in rows:
        r["x"], r["y"], r["z"] = round(r["x"] + shift[0], 3), round(r["y"] + shift[1], 3), round(r["z"] + shift[2], 3)
    desc["translated-by"] = shift
    if rng.random() < 0.4:
        # residue names of the four RNA bases in lower case (some programs write them so)
        for r in rows:
            if r["resname"] in ("A", "C", "G", "U"):
                r["resname"] = r["resname"].lower()
        desc["lower-case-residue-names"] = True
    num = rng.choice([0, 0, -40, -7, -998])
    if num:
        low = min(r["resseq"] for r in rows)
        for r in rows:
            r["resseq"] = r["resseq"] - low + num
        desc["numbers-from"] = num
    return desc


def table_writer_pipeline(prop, case, rec, call):
    """rows -> mmCIF text -> parse_cif_atoms -> fit_to_pdb -> write_pdb -> read_3d_structure(model) -> annotation,
    compared (by residue position: the fitting renames chains and residues) with the annotation of the written atoms."""
    from rnapolis import parser_v2
    from vmon import emit

    kind = case["kind"]
    if kind == "ensemble-selection":
        rows = []
        for m in (2, 5, 9):
            rows += emit.rows_from_structure(gen3d.load(case["file"], m))
        models = [2, 5, 9]
    elif kind == "zero-based-ensemble":
        # models numbered 0, 1, 2 (as molecular-dynamics tools write them)
        rows = []
        for new, m in enumerate((1, 4, 8)):
            rows += [dict(r, model=new) for r in emit.rows_from_structure(gen3d.load(case["file"], m))]
        models = [0, 1, 2]
    elif kind == "mixed-chain-name-lengths":
        rows = [r for r in emit.rows_from_structure(gen3d.load(case["file"], 1)) if r["chain"] in ("B", "A-2")]
        rows = [r for r in rows if r["chain"] == "B"] + [r for r in rows if r["chain"] == "A-2"]
        models = [rows[0]["model"]] if rows else []
    else:
        base = gen3d.apply_ops(gen3d.load(case["file"], 1), [{"op": "icodes", "seed": "table-writer", "frac": 0.7}])
        rows = [dict(r, chain="RNA1") for r in emit.rows_from_structure(base)]
        models = [rows[0]["model"]] if rows else []
    if not rows:
        rec.skip("file.annotation-equals-annotation-of-the-written-atoms", "no rows")
        return
    for i, r in enumerate(rows, 1):
        r["serial"] = i
    desc = {"file": case["file"], "route": "mmCIF text -> parse_cif_atoms -> fit_to_pdb -> write_pdb -> read_3d_structure", "kind": kind, "models": models}
    try:
        pdb_text = parser_v2.write_pdb(parser_v2.fit_to_pdb(parser_v2.parse_cif_atoms(emit.emit_cif(rows))))
    except Exception as e:
        rec.undecided("file.annotation-equals-annotation-of-the-written-atoms", f"conversion raised {type(e).__name__}")
        return
    for m in models:
        mon3d._cur["ctx"] = dict(desc, model=m)
        try:
            s = emit.read_text(pdb_text, ".pdb", m)
        except Exception as e:
            rec.violation("file.annotation-equals-annotation-of-the-written-atoms", {"ctx": dict(desc, model=m), "reader-exception": repr(e)[:200]}, mechanism=f"crash:{type(e).__name__}:reader")
            continue
        n = call(s, m)
        rec.mark_nontrivial(n > 0)
        mrows = [r for r in rows if r["model"] == m]
        nres = len({(r["chain"], r["resseq"], r["icode"], r["resname"]) for r in mrows})
        got_res = [r for r in s.residues if r.model == m]
        if len(got_res) != nres or sum(len(r.atoms) for r in got_res) != len(mrows):
            rec.violation("file.annotation-equals-annotation-of-the-written-atoms",
                          {"ctx": dict(desc, model=m), "residues": [len(got_res), nres], "atoms": [sum(len(r.atoms) for r in got_res), len(mrows)]}, mechanism=None)
            continue
        twin = structure_from_rows(mrows, s, letters_in_order=[r.one_letter_name for r in got_res])
        mon3d._cur["ctx"] = dict(desc, model=m, twin="in-memory structure of the written table")
        try:
            a, b = _interaction_keys(s, prop, by_position=True, model=m), _interaction_keys(twin, prop, by_position=True)
        except Exception as e:
            rec.undecided("file.annotation-equals-annotation-of-the-written-atoms", f"annotation raised {type(e).__name__}")
            continue
        rec.check("file.annotation-equals-annotation-of-the-written-atoms", a == b,
                  lambda: {"ctx": dict(desc, model=m), "only-for-the-file": sorted(map(str, a - b))[:5], "only-for-the-written-atoms": sorted(map(str, b - a))[:5]})


def structure_from_rows(rows, read, letters_in_order=None):
    """Structure3D holding exactly the atoms of `rows` (first model), identified by author identity; one-letter names
    as the reader decided them for the same residue (fallback: the residue name's last letter)."""
    from rnapolis import tertiary
    from rnapolis.common import ResidueAuth

    letters = {}
    for r in read.residues:
        a = r.auth
        if a is not None:
            letters[(a.chain, a.number, a.icode)] = r.one_letter_name
    first = rows[0]["model"] if rows else 1
    groups, order = {}, []
    for r in rows:
        if r["model"] != first:
            continue
        k = (r["chain"], r["resseq"], r["icode"], r["resname"])
        if k not in groups:
            groups[k] = []
            order.append(k)
        groups[k].append(r)
    residues = []
    for pos, k in enumerate(order):
        auth = ResidueAuth(k[0], k[1], k[2], k[3])
        atoms = tuple(tertiary.Atom(None, None, auth, first, r["name"], float(r["x"]), float(r["y"]), float(r["z"]), r["occ"]) for r in groups[k])
        letter = letters_in_order[pos] if letters_in_order is not None and pos < len(letters_in_order) else letters.get((k[0], k[1], k[2]), k[3][-1:])
        residues.append(tertiary.Residue3D(None, auth, first, letter, atoms))
    return tertiary.Structure3D(residues)


def _interaction_keys(s, prop, by_position=False, model=None):
    from rnapolis import annotator

    bi = annotator.extract_base_interactions(s, model)
    ak = lambda r: (r.auth.chain, r.auth.number, r.auth.icode, r.auth.name) if r.auth is not None else None
    if by_position:
        # residues named by their position in the (model's) residue list: comparable across a renaming
        posn = {}
        for r in s.residues:
            if model is None or r.model == model:
                posn.setdefault(ak(r), len(posn))
        ident = ak
        ak = lambda r: posn.get(ident(r), ("?", ident(r)))
    out = set()
    if prop in ("C03", "C11"):
        out |= {("pair", ak(p.nt1), ak(p.nt2), p.lw.value) for p in bi.basePairs}
    if prop in ("C04", "C11"):
        out |= {("stacking", ak(p.nt1), ak(p.nt2), p.topology.value) for p in bi.stackings}
    if prop == "C11":
        out |= {("bph", ak(p.nt1), ak(p.nt2), str(p.bph)) for p in bi.basePhosphateInteractions}
        out |= {("br", ak(p.nt1), ak(p.nt2), str(p.br)) for p in bi.baseRiboseInteractions}
    return out


def field_edges_text(seed, prop, case, want_rows=False):
    from vmon import emit

    rng = random.Random(f"{seed}:{prop}:edges:{case['t']}")
    rows = emit.rows_from_structure(gen3d.load(case["file"], 1))
    desc = {"file": case["file"], "through-reader": True, "t": case["t"]}
    desc.update(field_edges_rows(rows, rng))
    fmt = ".pdb" if rng.random() < 0.75 else ".cif"
    if fmt == ".pdb" and not (emit.fits_pdb(rows) and all((r["chain"] or "").strip() and len(r["chain"]) == 1 for r in rows)):
        fmt = ".cif"
    if case["t"] % 10 == 9 and emit.fits_pdb(rows) and all(r["rec"] == "ATOM" and (r["chain"] or "").strip() and len(r["chain"]) == 1 for r in rows):
        fmt = ".pdb"
        first = 100000 - len(rows) // 2
        for i, r in enumerate(rows):
            r["serial"] = first + i
        desc["serials-from"], desc["six-digit-serials"] = first, True
    text = emit.emit_pdb(rows) if fmt == ".pdb" else emit.emit_cif(rows)
    tv = rng.choice([0, 0, 1, 2])
    text = emit.text_variant(text, tv, fmt[1:])
    desc.update({"format": fmt, "text-variant": tv})
    try:
        res = emit.read_text(text, fmt)
    except Exception as e:
        desc["reader-exception"] = repr(e)[:200]
        res = None
    return (res, desc, rows) if want_rows else (res, desc)


def superposed_text(seed, prop, case):
    """Structure3D read by the real reader from text in which some residues have a nearly superposed copy."""
    from vmon import emit

    desc = {"file": case["file"], "through-reader": True, "t": case["t"]}
    if not isinstance(case["t"], int):
        # 488d.pdb as deposited (chains B and D are two copies of one strand, 0.40/0.60), both copies given 0.50
        lines = []
        for line in open(os.path.join(core.REPO, case["file"])).read().splitlines():
            if line.startswith(("ATOM", "HETATM")) and line[54:60].strip() in ("0.40", "0.60"):
                line = line[:54] + "  0.50" + line[60:]
            lines.append(line)
        try:
            return emit.read_text("\n".join(lines) + "\n", ".pdb"), desc
        except Exception as e:
            desc["reader-exception"] = repr(e)[:200]
            return None, desc
    rng = random.Random(f"{seed}:{prop}:sup:{case['t']}")
    rows = emit.rows_from_structure(gen3d.load(case["file"], 1))
    keys = []
    for r in rows:
        k = (r["chain"], r["resseq"], r["icode"])
        if k not in keys:
            keys.append(k)
    used = {r["chain"] for r in rows}
    # every source chain gets a copy chain of its own (two chains may number their residues alike)
    free = [c for c in "ZYXWVUzyxwvu98765432" if c not in used]
    if len(free) < len(used) or not emit.fits_pdb(rows):
        return None, desc
    copy_chain = dict(zip(sorted(used), free))
    new_chain = "".join(copy_chain[c] for c in sorted(used))
    chosen = set(rng.sample(keys, max(1, min(len(keys), rng.choice([1, 2, 3, len(keys) // 4 + 1])))))
    occ = rng.choice([(0.5, 0.5), (0.5, 0.5), (0.4, 0.6), (0.6, 0.4), (1.0, 1.0), (0.0, 1.0), (1.0, 0.0), (0.0, 0.6)])  # (0.00 is an ordinary occupancy: the flag of an unobserved copy)
    step = rng.choice([0.05, 0.15, 0.25, 0.0, 0.0])  # 0.0: the copy sits on exactly the same coordinates
    vec = [rng.choice([-1, 1]) * step for _ in range(3)]  # |vec| = 0.09 / 0.26 / 0.43 A: below the reader's 0.5 A
    copies = []
    for r in rows:
        if (r["chain"], r["resseq"], r["icode"]) in chosen:
            r["occ"] = occ[0]
            copies.append(dict(r, chain=copy_chain[r["chain"]], occ=occ[1], x=round(r["x"] + vec[0], 3), y=round(r["y"] + vec[1], 3), z=round(r["z"] + vec[2], 3)))
    rows = (copies + rows) if rng.random() < 0.5 else (rows + copies)
    for i, r in enumerate(rows, 1):
        r["serial"] = i
    fmt = rng.choice([".pdb", ".cif"])
    desc.update({"copies-of": sorted(map(str, chosen))[:6], "copy-chains": new_chain, "occupancies": occ, "shift": vec, "format": fmt})
    try:
        return emit.read_text(emit.emit_pdb(rows) if fmt == ".pdb" else emit.emit_cif(rows), fmt), desc
    except Exception as e:
        desc["reader-exception"] = repr(e)[:200]
        return None, desc


def run_case(prop, case, rec, call):
    """call(structure, model) drives the real code."""
    seed = os.environ.get("VERIF_SEED", "0")
    fam = case["family"]
    if fam == "placement-batch":
        n = 0
        for desc, s in placements(seed, prop, case):
            mon3d._cur["ctx"] = {"placement": desc}
            n += call(s, None)
        rec.mark_nontrivial(n > 0)
        return
    if fam == "threshold-grazing-placements":
        n = 0
        for desc, s in grazing(seed, prop, case):
            mon3d._cur["ctx"] = {"grazing-placement": desc}
            n += call(s, None)
            rec.count("note:grazing-placements")
        rec.mark_nontrivial(n > 0)
        return
    if fam == "translated-copies":
        n = 0
        for desc, s in translated(seed, prop, case):
            mon3d._cur["ctx"] = {"translated-copy": desc}
            n += call(s, None)
        rec.mark_nontrivial(True)
        return
    if fam == "ensemble-in-one-structure":
        from rnapolis import tertiary

        base = case["first_model_number"]
        res = []
        for m in range(1, 11):
            res += list(gen3d.rebuild(gen3d.load(case["file"], m), model=m - 1 + base).residues)
        s = tertiary.Structure3D(res)
        mon3d._cur["ctx"] = {"file": case["file"], "all-models-in-one-structure": True, "models-numbered-from": base, "model": case["model"]}
        n = call(s, case["model"])
        rec.mark_nontrivial(n > 0)
        # the same object asked about ANOTHER of its models next (and then about the first one again)
        other = base + (case["model"] - base + 3) % 10
        for m in (other, case["model"]):
            mon3d._cur["ctx"] = {"file": case["file"], "all-models-in-one-structure": True, "models-numbered-from": base, "model": m, "asked-before-on-this-object": case["model"]}
            call(s, m)
        return
    if fam == "more-than-65535-residues":
        from vmon import emit

        rows = [r for r in emit.rows_from_structure(gen3d.load(case["file"], 1)) if r["chain"] == "A" and r["resname"] in STANDARD_NAMES]
        copy = [dict(r, chain="B", x=round(r["x"] + 150.0, 3)) for r in rows]
        waters = []
        for i in range(65600):
            waters.append({"rec": "HETATM", "serial": 0, "name": "O", "alt": None, "resname": "HOH", "chain": "abcdefg"[i // 9999], "resseq": i % 9999 + 1, "icode": None,
                           "x": round(300.0 + (i % 60) * 3.0, 3), "y": round((i // 60 % 60) * 3.0, 3), "z": round((i // 3600) * 3.0, 3), "occ": 1.0, "b": 0.0, "element": "O", "charge": None, "model": 1})
        allrows = rows + waters + copy
        for i, r in enumerate(allrows, 1):
            r["serial"] = i
        mon3d._cur["ctx"] = {"file": case["file"], "layout": "chain A, 65 600 waters, translated copy of chain A as chain B", "residues": 2 * len({(r["resseq"], r["icode"]) for r in rows}) + 65600}
        try:
            s = emit.read_text(emit.emit_pdb(allrows), ".pdb")
        except Exception as e:
            rec.undecided("pairs.maximal", f"reader raised {type(e).__name__}")
            return
        n = call(s, None)
        rec.mark_nontrivial(n > 0)
        return
    if fam == "twenty-copies":
        from rnapolis import tertiary
        from rnapolis.common import ResidueAuth, ResidueLabel

        base = gen3d.load(case["file"], 1)
        res = []
        for c in range(20):
            off = np.array([400.0 * (c % 5), 400.0 * (c // 5), 0.0])

            def relabel(ri, r, c=c):
                lab = ResidueLabel(f"{r.label.chain}{c}", r.label.number, r.label.name) if r.label is not None else None
                auth = ResidueAuth(f"{r.auth.chain}{c}", r.auth.number, r.auth.icode, r.auth.name) if r.auth is not None else None
                return lab, auth

            res += list(gen3d.rebuild(base, coord_fn=lambda ri, p, off=off: p + off, relabel=relabel).residues)
        s = tertiary.Structure3D(res)
        mon3d._cur["ctx"] = {"file": case["file"], "copies": 20, "residues": len(res)}
        n = call(s, None)
        rec.mark_nontrivial(n > 0)
        return
    if fam == "different-molecules-as-models":
        from rnapolis import tertiary

        res = list(gen3d.rebuild(gen3d.load(case["file"], None), model=1).residues) + list(gen3d.rebuild(gen3d.load(case["other"], None), model=2).residues)
        s = tertiary.Structure3D(res)
        n = 0
        for m in case["order"]:
            mon3d._cur["ctx"] = {"model-1": case["file"], "model-2": case["other"], "one-structure": True, "model": m, "order-on-this-object": case["order"]}
            n += call(s, m)
        rec.mark_nontrivial(n > 0)
        return
    if fam == "through-the-table-writer":
        return table_writer_pipeline(prop, case, rec, call)
    if fam == "through-reader-field-edges":
        s, desc, rows = field_edges_text(seed, prop, case, want_rows=True)
        mon3d._cur["ctx"] = desc
        if s is None:
            return
        n = call(s, None)
        rec.mark_nontrivial(n > 0)
        # what is annotated for the FILE must be what is annotated for the atoms written into it: the same table as
        # an in-memory structure (letters as the reader decided them), same coordinates to the last bit
        # one-letter names of the twin: the base a standard residue name stands for (whatever its letter case), the
        # reader's own decision for every other residue
        order, std = [], {"A": "A", "C": "C", "G": "G", "U": "U", "DA": "A", "DC": "C", "DG": "G", "DT": "T", "T": "T"}
        for r in rows:
            k = (r["chain"], r["resseq"], r["icode"], r["resname"])
            if r["model"] == rows[0]["model"] and k not in order:
                order.append(k)
        by_read = {(r.auth.chain, r.auth.number, r.auth.icode): r.one_letter_name for r in s.residues if r.auth is not None}
        letters = [std.get(k[3].upper()) or by_read.get((k[0], k[1], k[2]), k[3][-1:]) for k in order]
        twin = structure_from_rows(rows, s, letters_in_order=letters)
        mon3d._cur["ctx"] = dict(desc, twin="in-memory structure of the written table")
        try:
            a, b = _interaction_keys(s, prop), _interaction_keys(twin, prop)
        except Exception as e:
            rec.undecided("file.annotation-equals-annotation-of-the-written-atoms", f"annotation raised {type(e).__name__}")
            return
        rec.check("file.annotation-equals-annotation-of-the-written-atoms", a == b,
                  lambda: {"ctx": desc, "only-for-the-file": sorted(map(str, a - b))[:5], "only-for-the-written-atoms": sorted(map(str, b - a))[:5],
                           "residues": [len(s.residues), len(twin.residues)], "atoms": [sum(len(r.atoms) for r in s.residues), sum(len(r.atoms) for r in twin.residues)]})
        return
    if fam == "through-reader-canonical-sequence":
        from vmon import emit

        src = gen3d.load(case["file"], 1)
        chains = []
        for r in src.residues:
            if r.auth is not None and r.auth.chain not in chains:
                chains.append(r.auth.chain)
        keep = [r for r in src.residues if r.auth is not None and r.auth.chain == chains[0] and r.one_letter_name.upper() in "ACGU" and r.is_nucleotide] if chains else []
        if len(keep) < 6:
            rec.skip("file.annotation-equals-annotation-of-the-written-atoms", "fewer than six nucleotides in the first chain")
            return
        from rnapolis import tertiary

        rows = emit.rows_from_structure(tertiary.Structure3D(keep))
        order = []
        for r in rows:
            k = (r["chain"], r["resseq"], r["icode"])
            if k not in order:
                order.append(k)
        true = {k: res.one_letter_name.upper() for k, res in zip(order, keep)}
        rng = random.Random(f"{seed}:{prop}:canonical:{case['t']}")
        chosen = set(rng.sample(order[1:-1], 2)) | {order[0], order[-1]}
        other = {"A": "8AN", "C": "C5N", "G": "G7N", "U": "U8N"}
        for r in rows:
            k = (r["chain"], r["resseq"], r["icode"])
            if k in chosen:
                r["resname"], r["rec"] = other[true[k]], "HETATM"
        extra = [("entity", ["id", "type"], [["1", "polymer"]], "kv"),
                 ("entity_poly", ["entity_id", "type", "pdbx_seq_one_letter_code_can"], [["1", "polyribonucleotide", "".join(true[k] for k in order)]], "kv")]
        desc = {"file": case["file"], "through-reader": True, "chain": chains[0], "modified-components-at": [order.index(k) for k in order if k in chosen], "of": len(order), "entity_poly": True}
        mon3d._cur["ctx"] = desc
        try:
            s = emit.read_text(emit.emit_cif(rows, extra_cats=extra), ".cif")
        except Exception as e:
            rec.undecided("file.annotation-equals-annotation-of-the-written-atoms", f"reader raised {type(e).__name__}")
            return
        n = call(s, None)
        rec.mark_nontrivial(n > 0)
        twin = structure_from_rows(rows, s, letters_in_order=[true[k] for k in order])
        mon3d._cur["ctx"] = dict(desc, twin="in-memory structure of the written table, bases as the canonical sequence gives them")
        try:
            a, b = _interaction_keys(s, prop), _interaction_keys(twin, prop)
        except Exception as e:
            rec.undecided("file.annotation-equals-annotation-of-the-written-atoms", f"annotation raised {type(e).__name__}")
            return
        rec.check("file.annotation-equals-annotation-of-the-written-atoms", a == b,
                  lambda: {"ctx": desc, "only-for-the-file": sorted(map(str, a - b))[:5], "only-for-the-written-atoms": sorted(map(str, b - a))[:5],
                           "letters-read": "".join(r.one_letter_name for r in s.residues)[:80]})
        return
    if fam == "through-reader-superposed-copies":
        s, desc = superposed_text(seed, prop, case)
        mon3d._cur["ctx"] = desc
        if s is None:
            return
        n = call(s, None)
        rec.mark_nontrivial(n > 0)
        return
    model = case.get("model")
    s = gen3d.load(case["file"], model)
    if case["ops"]:
        s = gen3d.apply_ops(s, case["ops"])
    mon3d._cur["ctx"] = {"file": case["file"], "ops": case["ops"], "model": model}
    n = call(s, model)
    rec.mark_nontrivial(n > 0)
    # sequence on one Structure3D object: annotate, full 2D analysis (stem centroids,
    # inter-stem parameters, PyMOL script), annotate again - the second annotation is
    # judged by the same monitors against the atoms' own x/y/z fields
    if int(core.chash(case)[:2], 16) % 3 == 0 and len(s.residues) < 900:
        from rnapolis import annotator, tertiary

        mon3d._cur["ctx"] = {"file": case["file"], "ops": case["ops"], "model": model, "sequence": "annotate, 2D analysis, annotate again"}
        try:
            s2d, _ = annotator.extract_secondary_structure(s, model)
            m = tertiary.Mapping2D3D(s, s2d.baseInteractions.basePairs, s2d.baseInteractions.stackings, False)
            annotator.generate_pymol_script(m, s2d.stems)
            tertiary.calculate_all_inter_stem_parameters(m)
        except Exception:
            pass
        call(s, model)
