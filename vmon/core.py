"""Core of the runtime-monitoring framework: recorder, attach layer, reach map.

Nothing here imports third-party code; everything the monitors need from the
library is reached through ``sys.modules`` after the workload imported it.
"""
import hashlib
import json
import os
import sys
import traceback
import functools
import types

REPO = os.environ.get("VERIF_REPO", "/repo")
SRC = os.path.join(REPO, "src")


def setup_path():
    """Make sure `rnapolis` resolves to $VERIF_REPO/src (asserted)."""
    if SRC not in sys.path:
        sys.path.insert(0, SRC)
    import logging

    logging.disable(logging.CRITICAL)
    import rnapolis

    where = os.path.realpath(list(rnapolis.__path__)[0])
    want = os.path.realpath(os.path.join(SRC, "rnapolis"))
    if where != want:
        raise RuntimeError(f"rnapolis imported from {where}, wanted {want}")


def canon(obj):
    return json.dumps(obj, sort_keys=True, separators=(",", ":"), default=str)


def chash(obj):
    return hashlib.blake2b(canon(obj).encode(), digest_size=8).hexdigest()


class Rec:
    """Event recorder for one worker.  Three-valued clause results."""

    MAX_WITNESS_PER_KEY = 3
    MAX_SAMPLES = 6

    def __init__(self, prop):
        self.prop = prop
        self.case = None
        self.case_family = None
        self.evaluations = 0
        self.clauses = {}  # clause -> [ok, violation, undecided, skipped]
        self.families = {}
        self.monitor_calls = {}
        self.nontrivial = set()
        self.violations = []  # dicts
        self._viol_keys = {}
        self.n_violations = 0
        self.samples = []
        self.notes = {}
        self.case_nontrivial = False
        self.extra = {}

    # -- case bookkeeping -------------------------------------------------
    def begin(self, case, rerun=False):
        self.case = case
        self.case_nontrivial = False
        self.case_violated = False
        # checkpoint of everything a case can add to (rollback() restores it; clause tables are small)
        self._checkpoint = (len(self.violations), dict(self._viol_keys), self.n_violations, {c: list(v) for c, v in self.clauses.items()},
                            dict(self.monitor_calls), dict(self.notes))
        if rerun:
            return
        self.evaluations += 1
        fam = case.get("family", "?")
        self.families[fam] = self.families.get(fam, 0) + 1

    def rollback(self):
        """Forget what the current case recorded so far (used before re-running it)."""
        nv, keys, n, clauses, calls, notes = self._checkpoint
        del self.violations[nv:]
        self._viol_keys = keys
        self.n_violations = n
        self.clauses = clauses
        self.monitor_calls = calls
        self.notes = notes

    def end(self):
        if self.case is None:
            return
        if self.case_nontrivial:
            self.nontrivial.add(chash(self.case))
            fam = self.case.get("family", "?")
            nfam = sum(1 for s in self.samples if s.get("family") == fam)
            if len(self.samples) < self.MAX_SAMPLES and nfam < 2:
                c = canon(self.case)
                if len(c) < 1500:
                    self.samples.append(self.case)
        self.case = None

    def mark_nontrivial(self, flag=True):
        if flag:
            self.case_nontrivial = True

    # -- clause results ---------------------------------------------------
    def _c(self, clause):
        return self.clauses.setdefault(clause, [0, 0, 0, 0])

    def ok(self, clause, n=1):
        self._c(clause)[0] += n

    def undecided(self, clause, reason=""):
        self._c(clause)[2] += 1
        k = f"undecided:{clause}:{reason}"
        self.notes[k] = self.notes.get(k, 0) + 1

    def skip(self, clause, reason=""):
        self._c(clause)[3] += 1
        k = f"skipped:{clause}:{reason}"
        self.notes[k] = self.notes.get(k, 0) + 1

    def violation(self, clause, detail, mechanism=None):
        """Record a violation of `clause` on the current case.

        `mechanism` is the classifier's signature (used for known findings);
        None means "unclassified" and can never match a known finding."""
        self._c(clause)[1] += 1
        self.n_violations += 1
        self.case_violated = True
        key = (clause, mechanism)
        n = self._viol_keys.get(key, 0)
        self._viol_keys[key] = n + 1
        if n < self.MAX_WITNESS_PER_KEY:
            self.violations.append(
                {
                    "clause": clause,
                    "mechanism": mechanism,
                    "detail": detail,
                    "case": self.case,
                }
            )

    def check(self, clause, cond, detail=None, mechanism=None):
        if cond:
            self.ok(clause)
        else:
            self.violation(clause, detail() if callable(detail) else detail, mechanism)
        return cond

    def count(self, name, n=1):
        self.monitor_calls[name] = self.monitor_calls.get(name, 0) + n

    def dump(self):
        return {
            "prop": self.prop,
            "evaluations": self.evaluations,
            "clauses": self.clauses,
            "families": self.families,
            "monitor_calls": self.monitor_calls,
            "nontrivial": sorted(self.nontrivial),
            "violations": self.violations,
            "viol_keys": [[k[0], k[1], n] for k, n in self._viol_keys.items()],
            "n_violations": self.n_violations,
            "samples": self.samples,
            "notes": self.notes,
            "extra": self.extra,
        }


# ---------------------------------------------------------------------------
# back-end watch: failures of the MILP solver that no workload injected
# ---------------------------------------------------------------------------
class SolverWatch:
    """Counts calls of pulp.LpProblem.solve that raised or ended non-optimal while NO fault injection was active.
    Such a failure comes from the environment (the CBC child process killed or starved on a loaded machine), not from
    the code under observation; the library then legitimately falls back to first-come-first-served.  The worker
    re-runs a case that recorded a violation while one happened: a transient failure disappears on the re-run, a
    failure the code causes does not."""

    injecting = 0
    unexpected = 0
    installed = False

    @classmethod
    def install(cls):
        if cls.installed:
            return
        try:
            import pulp
        except Exception:
            return
        orig = pulp.LpProblem.solve

        fail_at = int(os.environ.get("VMON_SELFTEST_SOLVER_FAILS_AT", "0"))  # self-test of this mechanism only
        calls = [0]

        def solve(self, solver=None, **kw):
            if fail_at and not cls.injecting:
                calls[0] += 1
                if calls[0] == fail_at:
                    cls.unexpected += 1
                    raise pulp.PulpSolverError("vmon self-test: simulated transient failure of the solver process")
            try:
                status = orig(self, solver, **kw)
            except Exception:
                if not cls.injecting:
                    cls.unexpected += 1
                raise
            if not cls.injecting and self.status != pulp.LpStatusOptimal:
                cls.unexpected += 1
            return status

        solve.__vmon_orig__ = orig
        pulp.LpProblem.solve = solve
        cls.installed = True


# ---------------------------------------------------------------------------
# attach layer
# ---------------------------------------------------------------------------
_MISSING = object()


class Attached:
    """One contract on one real function / method / (cached_)property.

    post(snapshot, result, exc, args, kwargs) is called after the original;
    pre(args, kwargs) -> snapshot is called before.  Both run inside a guard:
    an exception inside a monitor is recorded as a monitor fault (which makes
    the run inconclusive), never propagated into the observed program."""

    faults = []

    def __init__(self, name, pre, post, rec):
        self.name = name
        self.pre = pre
        self.post = post
        self.rec = rec

    def call(self, orig, args, kwargs):
        snap = None
        self.rec.count(self.name)
        if self.pre is not None:
            try:
                snap = self.pre(args, kwargs)
            except Exception:
                Attached.faults.append((self.name, "pre", traceback.format_exc()))
        try:
            result = orig(*args, **kwargs)
        except BaseException as e:
            if self.post is not None and isinstance(e, Exception):
                try:
                    self.post(snap, None, e, args, kwargs)
                except Exception:
                    Attached.faults.append((self.name, "post", traceback.format_exc()))
            raise
        if self.post is not None:
            try:
                self.post(snap, result, None, args, kwargs)
            except Exception:
                Attached.faults.append((self.name, "post", traceback.format_exc()))
        return result


def _rebind_aliases(orig, new):
    n = 0
    for modname, mod in list(sys.modules.items()):
        if mod is None or not (modname == "rnapolis" or modname.startswith("rnapolis.")):
            continue
        for k, v in list(vars(mod).items()):
            if v is orig:
                setattr(mod, k, new)
                n += 1
    return n


def wrap(owner, name, rec, post=None, pre=None, label=None):
    """Replace owner.name by a monitored version.  Handles plain functions,
    staticmethods, methods, property and functools.cached_property; rebinds
    `from m import f` aliases in every loaded rnapolis module."""
    raw = owner.__dict__[name] if isinstance(owner, type) else vars(owner)[name]
    label = label or f"{getattr(owner, '__name__', owner)}.{name}"
    att = Attached(label, pre, post, rec)

    def mk(f):
        @functools.wraps(f)
        def wrapper(*a, **k):
            return att.call(f, a, k)

        wrapper.__vmon_orig__ = f
        return wrapper

    if isinstance(raw, functools.cached_property):
        new = functools.cached_property(mk(raw.func))
        new.__set_name__(owner, raw.attrname)
        setattr(owner, name, new)
    elif isinstance(raw, property):
        new = property(mk(raw.fget), raw.fset, raw.fdel, raw.__doc__)
        setattr(owner, name, new)
    elif isinstance(raw, staticmethod):
        new = staticmethod(mk(raw.__func__))
        setattr(owner, name, new)
    elif isinstance(raw, classmethod):
        raise NotImplementedError
    elif isinstance(raw, types.FunctionType):
        new = mk(raw)
        setattr(owner, name, new)
        if isinstance(owner, types.ModuleType):
            _rebind_aliases(raw, new)
    elif callable(raw):
        # functools.lru_cache objects, partials, builtins ...: wrap generically
        def generic(*a, **k):
            return att.call(raw, a, k)

        generic.__vmon_orig__ = raw
        generic.__name__ = getattr(raw, "__name__", name)
        generic.__qualname__ = getattr(raw, "__qualname__", name)
        generic.__doc__ = getattr(raw, "__doc__", None)
        for extra in ("cache_clear", "cache_info", "__wrapped__"):
            if hasattr(raw, extra):
                setattr(generic, extra, getattr(raw, extra))
        new = generic
        setattr(owner, name, new)
        if isinstance(owner, types.ModuleType):
            _rebind_aliases(raw, new)
    else:
        raise TypeError(f"cannot wrap {label}: {type(raw)}")
    return att


# ---------------------------------------------------------------------------
# reach map (sys.monitoring, LINE events, DISABLE after first hit)
# ---------------------------------------------------------------------------
class Reach:
    TOOL = 3

    def __init__(self):
        self.codes = {}  # code -> qualname
        self.hit = {}  # code -> set(lines)
        self.active = False

    def _collect(self, code, qual):
        self.codes[code] = qual
        self.hit[code] = set()
        for c in code.co_consts:
            if isinstance(c, types.CodeType):
                self._collect(c, qual + "." + c.co_name)

    def add(self, func, qual=None):
        f = func
        while hasattr(f, "__vmon_orig__"):
            f = f.__vmon_orig__
        if isinstance(f, functools.cached_property):
            f = f.func
        if isinstance(f, property):
            f = f.fget
        if isinstance(f, staticmethod):
            f = f.__func__
        while hasattr(f, "__vmon_orig__"):
            f = f.__vmon_orig__
        for _ in range(5):
            if hasattr(f, "__code__"):
                break
            f = getattr(f, "__wrapped__", None) or getattr(f, "func", None) or f
        if not hasattr(f, "__code__"):
            return  # nothing to trace (builtin / C callable): reach simply has no entry
        self._collect(f.__code__, qual or f.__qualname__)

    def start(self):
        if not hasattr(sys, "monitoring") or not self.codes:
            return
        mon = sys.monitoring
        try:
            mon.use_tool_id(self.TOOL, "vmon-reach")
        except ValueError:
            return
        self.active = True

        def on_line(code, line):
            s = self.hit.get(code)
            if s is not None:
                s.add(line)
            return mon.DISABLE

        mon.register_callback(self.TOOL, mon.events.LINE, on_line)
        for code in self.codes:
            mon.set_local_events(self.TOOL, code, mon.events.LINE)

    def stop(self):
        if self.active:
            mon = sys.monitoring
            for code in self.codes:
                mon.set_local_events(self.TOOL, code, 0)
            mon.free_tool_id(self.TOOL)
            self.active = False

    def report(self):
        """{qualname: {"executed": n, "executable": m, "lines": [text,...]}}
        keyed by source text so that it survives edits to /repo."""
        import linecache

        out = {}
        for code, qual in self.codes.items():
            lines = sorted({l for _, _, l in code.co_lines() if l is not None and l > code.co_firstlineno})
            hit = self.hit[code]
            ent = out.setdefault(qual, {"executed": 0, "executable": 0, "hit_text": [], "all_text": []})
            for l in lines:
                t = linecache.getline(code.co_filename, l).strip()
                if t:
                    ent["all_text"].append(t)
            ent["executable"] += len(lines)
            ent["executed"] += len([l for l in lines if l in hit])
            for l in sorted(hit):
                t = linecache.getline(code.co_filename, l).strip()
                if t:
                    ent["hit_text"].append(t)
        return out


def landmark_hits(report, landmarks):
    """landmarks: {name: (qualname-prefix, substring)} -> {name: True | False | "stale"}.
    "stale" = the text no longer occurs in the function's source (the code was
    edited): that is reported in the evidence but is not a reason to call the
    run inconclusive - only a landmark that exists and was never executed is."""
    res = {}
    for name, (qual, sub) in landmarks.items():
        ok = False
        present = False
        for q, ent in report.items():
            if q.startswith(qual):
                if any(sub in t for t in ent["hit_text"]):
                    ok = True
                    break
                if any(sub in t for t in ent.get("all_text", [])):
                    present = True
        res[name] = True if ok else (False if present else "stale")
    return res
