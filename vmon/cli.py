"""check driver: spawn shard workers, aggregate, classify, verdict, evidence."""
import argparse
import concurrent.futures as cf
import importlib
import json
import os
import shutil
import subprocess
import sys
import tempfile
import time

from vmon import core

HERE = os.path.dirname(os.path.dirname(os.path.abspath(__file__)))
PY = os.environ.get("VERIF_PYTHON", "/venv/bin/python")
WORKER_TIMEOUT = {"quick": 1500, "thorough": 6 * 3600}


def load_known():
    p = os.path.join(HERE, "known_findings.json")
    if not os.path.exists(p):
        return []
    data = json.load(open(p))
    return [e for e in data.get("findings", []) if isinstance(e, dict) and e.get("status") == "open"]


def run_worker(prop, shard, nshards, seed, tier, outdir, replay=None, extra_env=None):
    out = os.path.join(outdir, f"shard{shard}.json")
    cmd = [PY, "-m", "vmon.worker", prop, str(shard), str(nshards), str(seed), tier, out]
    if replay:
        cmd.append(replay)
    env = dict(os.environ)
    env.setdefault("PYTHONHASHSEED", "0")
    env["PYTHONPATH"] = HERE
    env["PYTHONDONTWRITEBYTECODE"] = "1"
    env["RNAPOLIS_VERIF"] = "1"
    env.setdefault("LOGLEVEL", "CRITICAL")
    env["OMP_NUM_THREADS"] = "1"
    env["OPENBLAS_NUM_THREADS"] = "1"
    if extra_env:
        env.update(extra_env)
    try:
        p = subprocess.run(cmd, env=env, cwd=outdir, timeout=WORKER_TIMEOUT[tier], capture_output=True, text=True)
    except subprocess.TimeoutExpired:
        return {"status": "timeout", "shard": shard}
    if not os.path.exists(out):
        return {"status": "died", "shard": shard, "rc": p.returncode, "stderr": p.stderr[-3000:]}
    res = json.load(open(out))
    res["stderr_tail"] = p.stderr[-500:] if p.returncode else ""
    return res


def merge(results):
    m = {
        "evaluations": 0,
        "clauses": {},
        "families": {},
        "monitor_calls": {},
        "nontrivial": set(),
        "violations": [],
        "viol_keys": {},
        "n_violations": 0,
        "samples": [],
        "notes": {},
        "extra": [],
        "reach": {},
        "problems": [],
        "n_monitor_faults": 0,
    }
    for r in results:
        if r.get("status") != "ok":
            m["problems"].append({k: r.get(k) for k in ("status", "shard", "rc", "stderr", "error")})
            if r.get("status") in ("timeout", "died"):
                continue
        m["evaluations"] += r["evaluations"]
        for c, v in r["clauses"].items():
            a = m["clauses"].setdefault(c, [0, 0, 0, 0])
            for i in range(4):
                a[i] += v[i]
        for k in ("families", "monitor_calls", "notes"):
            for a, b in r[k].items():
                m[k][a] = m[k].get(a, 0) + b
        m["nontrivial"].update(r["nontrivial"])
        m["violations"].extend(r["violations"])
        for c, mech, n in r["viol_keys"]:
            m["viol_keys"][(c, mech)] = m["viol_keys"].get((c, mech), 0) + n
        m["n_violations"] += r["n_violations"]
        for s in r["samples"]:
            if len(m["samples"]) < 8:
                m["samples"].append(s)
        if r.get("extra"):
            m["extra"].append(r["extra"])
        m["n_monitor_faults"] += r.get("n_monitor_faults", 0)
        if r.get("monitor_faults"):
            m["problems"].append({"status": "monitor-fault", "shard": r["shard"], "error": r["monitor_faults"][0]})
        for q, ent in r.get("reach", {}).items():
            e = m["reach"].setdefault(q, {"executed": 0, "executable": ent["executable"], "hit_text": set(), "all_text": set()})
            e["hit_text"].update(ent["hit_text"])
            e["all_text"].update(ent.get("all_text", []))
    return m


def main(argv=None):
    ap = argparse.ArgumentParser()
    ap.add_argument("prop")
    ap.add_argument("--tier", default=os.environ.get("VERIF_TIER", "quick"), choices=["quick", "thorough"])
    ap.add_argument("--replay")
    ap.add_argument("--shards", type=int, default=int(os.environ.get("VERIF_SHARDS", "0")))
    ap.add_argument("--no-evidence", action="store_true")
    args = ap.parse_args(argv)
    prop = args.prop.upper()
    seed = int(os.environ.get("VERIF_SEED", "0"))
    tier = args.tier
    sys.path.insert(0, HERE)
    mod = importlib.import_module(f"vmon.props.{prop.lower()}")
    t0 = time.time()
    nshards = args.shards or getattr(mod, "SHARDS", {}).get(tier, min(16, os.cpu_count() or 4))
    outdir = tempfile.mkdtemp(prefix=f"vmon-{prop}-")
    try:
        if args.replay:
            res = [run_worker(prop, 0, 1, seed, tier, outdir, replay=os.path.abspath(args.replay))]
        else:
            with cf.ThreadPoolExecutor(max_workers=min(nshards, os.cpu_count() or 4)) as ex:
                futs = [ex.submit(run_worker, prop, s, nshards, seed, tier, outdir) for s in range(nshards)]
                res = [f.result() for f in futs]
        m = merge(res)
        extra_inconclusive = []
        if hasattr(mod, "aggregate") and not args.replay:
            extra_inconclusive = mod.aggregate(m, res, seed, tier) or []
    finally:
        shutil.rmtree(outdir, ignore_errors=True)

    # ---- classification -------------------------------------------------
    known = [k for k in load_known() if k["property"] == prop]
    known_mech = {k["mechanism"]: k for k in known}
    new_viol = {k: n for k, n in m["viol_keys"].items() if k[1] not in known_mech}
    seen_known = {}
    for (clause, mech), n in m["viol_keys"].items():
        if mech in known_mech:
            seen_known[mech] = seen_known.get(mech, 0) + n

    # ---- reach landmarks / inconclusive ---------------------------------
    reach_rep = {
        # counted as distinct source-line texts on both sides (a text repeated inside a function counts once)
        q: {"executed": len(e["hit_text"] & e["all_text"]) if e["all_text"] else len(e["hit_text"]), "executable": max(len(e["all_text"]) or e["executable"], len(e["hit_text"]) if not e["all_text"] else 0)} for q, e in m["reach"].items()
    }
    if os.environ.get("VERIF_DUMP_REACH"):
        # developer aid (tools/unreached.sh): source text of the anchored lines no case executed
        with open(os.environ["VERIF_DUMP_REACH"], "w") as f:
            json.dump({q: sorted(e["all_text"] - e["hit_text"]) for q, e in m["reach"].items() if e["all_text"] - e["hit_text"]}, f, indent=1)
    landmarks = getattr(mod, "LANDMARKS", {})
    lm = core.landmark_hits({q: {"hit_text": e["hit_text"], "all_text": e["all_text"]} for q, e in m["reach"].items()}, landmarks)
    inconclusive = []
    if not args.replay:
        inconclusive.extend(extra_inconclusive)
        for p in m["problems"]:
            inconclusive.append(f"worker:{p.get('status')}:shard{p.get('shard')}")
        for name, hit in lm.items():
            if hit is False:
                inconclusive.append(f"landmark-not-reached:{name}")
        for name in getattr(mod, "REQUIRED_MONITORS", []):
            if m["monitor_calls"].get(name, 0) == 0:
                inconclusive.append(f"monitor-never-evaluated:{name}")
        for clause in getattr(mod, "REQUIRED_CLAUSES", []):
            c = m["clauses"].get(clause, [0, 0, 0, 0])
            if c[0] + c[1] == 0:
                inconclusive.append(f"clause-never-decided:{clause}")
        if len(m["nontrivial"]) < 2:
            inconclusive.append("too-few-nontrivial-cases")

    # ---- replays ---------------------------------------------------------
    rdir = os.path.join(HERE, "replays", prop)
    first_replay = None
    if m["violations"] and not args.replay:
        os.makedirs(rdir, exist_ok=True)
        seen = set()
        for v in m["violations"]:
            is_known = v["mechanism"] in known_mech
            tag = ("known-" if is_known else "viol-") + core.chash([v["clause"], v["mechanism"], v["case"]])
            if tag in seen:
                continue
            seen.add(tag)
            path = os.path.join(rdir, tag + ".json")
            with open(path, "w") as f:
                json.dump(v, f, indent=1, default=str)
            if not is_known and first_replay is None:
                first_replay = path

    wall = time.time() - t0
    verdict = "held"
    if new_viol:
        verdict = "violated"
    elif inconclusive:
        verdict = "inconclusive"

    # ---- evidence --------------------------------------------------------
    if not args.replay and not args.no_evidence:
        cov = {
            "evaluations": m["evaluations"],
            "distinct_nontrivial": len(m["nontrivial"]),
            "rule": mod.RULE,
            "samples": m["samples"] or [{"note": "no non-trivial sample small enough to print"}],
            "exhaustive": bool(getattr(mod, "EXHAUSTIVE", {}).get(tier, False)),
            "clauses": {c: dict(zip(("ok", "violation", "undecided", "skipped"), v)) for c, v in sorted(m["clauses"].items())},
            "families": m["families"],
            "monitor_calls": m["monitor_calls"],
            "notes": dict(sorted(m["notes"].items())[:60]),
            "reach": reach_rep,
            "landmarks": lm,
            "known_findings_seen": seen_known,
            "verdict": verdict,
            "inconclusive_reasons": inconclusive,
            "shards": nshards,
            "extra": m["extra"][:4],
        }
        ev = {
            "property_id": prop,
            "tier": tier,
            "seed": seed,
            "level": mod.LEVEL,
            "coverage": cov,
            "assumptions": getattr(mod, "ASSUMPTIONS", []),
            "wall_s": round(wall, 2),
            "violations": sum(new_viol.values()),
        }
        os.makedirs(os.path.join(HERE, "evidence"), exist_ok=True)
        with open(os.path.join(HERE, "evidence", f"{prop}.json"), "w") as f:
            json.dump(ev, f, indent=1, sort_keys=True, default=str)
            f.write("\n")

    # ---- report ----------------------------------------------------------
    tot = {c: v for c, v in sorted(m["clauses"].items())}
    print(f"[{prop}] tier={tier} seed={seed} shards={nshards} cases={m['evaluations']} "
          f"distinct_nontrivial={len(m['nontrivial'])} wall={wall:.1f}s")
    for c, v in tot.items():
        print(f"  clause {c:34s} ok={v[0]} violation={v[1]} undecided={v[2]} skipped={v[3]}")
    if m["monitor_calls"]:
        print("  monitor calls:", dict(sorted(m["monitor_calls"].items())))
    if lm:
        print("  landmarks:", lm)
    for p in m["problems"][:3]:
        print("  PROBLEM:", json.dumps(p, default=str)[:1500])
    if len(m["problems"]) > 3:
        print(f"  ... and {len(m['problems']) - 3} more worker problems")
    for mech, n in sorted(seen_known.items()):
        print(f"KNOWN-FINDING: property={prop} {known_mech[mech]['what']} [mechanism={mech}, seen {n}x]")
    if args.replay:
        for v in m["violations"]:
            print("  replay violation:", v["clause"], v["mechanism"], json.dumps(v["detail"], default=str)[:1500])
        print(f"[{prop}] replay: {m['n_violations']} violation(s)")
        return 1 if any(v["mechanism"] not in known_mech for v in m["violations"]) else 0
    if new_viol:
        for (clause, mech), n in sorted(new_viol.items(), key=lambda x: str(x)):
            print(f"  NEW violation clause={clause} mechanism={mech} count={n}")
        ex = next(v for v in m["violations"] if v["mechanism"] not in known_mech)
        print("  witness:", json.dumps(ex["detail"], default=str)[:1200])
        print(f"VIOLATION property={prop} replay={first_replay}")
        return 1
    if inconclusive:
        print(f"INCONCLUSIVE property={prop} reason={';'.join(inconclusive[:8])}")
        return 2
    print(f"[{prop}] HELD on everything observed")
    return 0


if __name__ == "__main__":
    sys.exit(main())
