"""G-TAB: abstract atom tables sampled field by field (see vmon/emit.py for the row format)."""
import random

ATOM_NAMES = ["P", "OP1", "OP2", "O5'", "C5'", "C4'", "O4'", "C3'", "O3'", "C2'", "O2'", "C1'", "N1", "C2", "N3", "C4", "C5", "C6", "N9", "C8", "N7", "O6", "N6", "O2", "O4", "N2", "N4",
              "H5'", "H5''", "HO2'", "1H5'", "2HO'", "H1", "MG", "ZN", "FE", "O", "CA", "C", "N", "CB", "SE", "BR", "O1P", "C7", "HN1", "H21"]
ELEMENT = {"MG": "MG", "ZN": "ZN", "FE": "FE", "SE": "SE", "BR": "BR", "CA": "C"}
RESNAMES = ["A", "C", "G", "U", "DA", "DT", "DG", "DC", "PSU", "5MC", "HOH", "MG", "ALA", "GLY", "2MG", "H2U"]
CHAINS = list("ABCXYZabc019")


def element_of(name):
    if name in ELEMENT:
        return ELEMENT[name]
    s = name.lstrip("0123456789")
    return s[:1] if s else None


def clamp(v):
    return round(min(9999.999, max(-999.999, v)), 3)


def coord(rng, wide=False):
    if wide and rng.random() < 0.15:
        return round(rng.choice([-999.999, 9999.999, -0.001, 0.0, 1234.567, -123.456]), 3)
    return round(rng.uniform(-60, 90), 3)


def _sh(v, d):
    """shift that never leaves the %8.3f range"""
    w = v + d
    if not (-999.999 <= w <= 9999.999):
        w = v - d
    return round(w, 3)


def random_table(rng, nmodels=None, shared_identities=True, altlocs=True, close_pairs=True, dup_names=True, hetatm=True,
                 icodes=True, charges=True, null_occ=False, blank_chain=False, nchains=None, nres=None, wide=True, model_numbers=None, serial_start=None, hetero=False):
    """Residues are contiguous; models (if shared_identities) repeat the same
    residue identities with shifted coordinates, as NMR ensembles do."""
    nmodels = nmodels or rng.choice([1, 1, 1, 2, 3, 5])
    nchains = nchains or rng.randint(1, 4)
    chains = rng.sample(CHAINS, nchains)
    if blank_chain:
        chains[0] = " "
    template = []  # model-independent description
    used_keys = set()
    for ch in chains:
        num = rng.choice([-5, -1, 0, 1, 1, 1, 10, 995, 9990])
        for _ in range(nres or rng.randint(1, 5)):
            resname = rng.choice(RESNAMES)
            rec = "HETATM" if (hetatm and resname in ("HOH", "MG", "PSU", "5MC", "2MG", "H2U") and rng.random() < 0.8) else "ATOM"
            icode = rng.choice([None, None, None, "A", "B"]) if icodes else None
            while (ch, num, icode) in used_keys:
                num += 1
            used_keys.add((ch, num, icode))
            names = rng.sample(ATOM_NAMES, rng.randint(1, 7))
            if hetero and template and template[-1]["chain"] == ch and rng.random() < 0.25:
                # a differently named residue on the SAME chain / number / insertion code as an earlier one of the
                # chain (micro-heterogeneity, a ligand or water whose numbering restarts inside the polymer's
                # chain), sharing an atom name with it
                prev = rng.choice([t for t in template if t["chain"] == ch])
                if prev["resname"] != resname and not any(t is not prev and (t["chain"], t["resseq"], t["icode"]) == (ch, prev["resseq"], prev["icode"]) for t in template):
                    num, icode = prev["resseq"], prev["icode"]
                    shared = prev["atoms"][0]["name"]
                    names = [shared] + [x for x in names if x != shared]
            atoms = []
            for nm in names:
                atoms.append({"name": nm, "alt": None, "xyz": [coord(rng, wide) for _ in range(3)], "occ": 1.0})
            # alternate locations: two copies of one name with different occupancies
            if altlocs and rng.random() < 0.35:
                a = rng.choice(atoms)
                o = rng.choice([0.0, 0.3, 0.4, 0.5, 0.6, 0.7, 1.0])
                a["alt"], a["occ"] = "A", o
                twin = {"name": a["name"], "alt": "B", "xyz": [clamp(v - rng.choice([0.3, 0.8, 1.5])) if v > 9000 else clamp(v + rng.choice([0.3, 0.8, 1.5])) for v in a["xyz"]], "occ": round(1.0 - o, 2)}
                atoms.insert(atoms.index(a) + 1, twin)
            # a repeated name without alt-loc flag
            if dup_names and rng.random() < 0.15:
                a = rng.choice(atoms)
                atoms.append({"name": a["name"], "alt": None, "xyz": [clamp(v - 2.0) if v > 9000 else clamp(v + 2.0) for v in a["xyz"]], "occ": rng.choice([0.2, 0.5, 1.0])})
            # a different atom closer than 0.5 A (or just outside)
            if close_pairs and rng.random() < 0.3:
                a = rng.choice(atoms)
                other = rng.choice([n for n in ATOM_NAMES if all(n != x["name"] for x in atoms)])
                d = rng.choice([0.2, 0.3, 0.7, 0.9, "just-outside", "just-inside"])
                if isinstance(d, str):
                    # offsets (0.3, 0.4, dz): 0.5009 / 0.5004 A apart (both atoms are to be kept) or 0.4992 / 0.4996 A
                    dz = rng.choice([0.03, 0.02]) if d == "just-outside" else rng.choice([-0.399, -0.3995])
                    off = (0.3, 0.4, dz) if d == "just-outside" else (0.3, 0.0, dz)
                    xyz = [clamp(a["xyz"][k] - off[k]) if a["xyz"][k] > 9000 else clamp(a["xyz"][k] + off[k]) for k in range(3)]
                else:
                    xyz = [clamp(a["xyz"][0] - d) if a["xyz"][0] > 9000 else clamp(a["xyz"][0] + d), a["xyz"][1], a["xyz"][2]]
                atoms.append({"name": other, "alt": None, "xyz": xyz, "occ": rng.choice([0.0, 0.3, 0.5, 0.8, 1.0]),
                              # the close neighbour may exist in some models only
                              "only_models": (None if rng.random() < 0.5 else [k for k in range(1, nmodels + 1) if rng.random() < 0.5] or [1])})
                if rng.random() < 0.3:
                    a["occ"] = rng.choice([0.0, 0.4, 1.0])
            if null_occ:
                for a in atoms:
                    if rng.random() < 0.3:
                        a["occ"] = None
            template.append({"chain": ch, "resseq": num, "icode": icode, "resname": resname, "rec": rec, "atoms": atoms})
            if icode is None or rng.random() < 0.5:
                num += rng.choice([1, 1, 1, 2, 7])
            if num > 9999:
                break
    serial = rng.choice([0, 0, 0, 9990, 99000]) if serial_start is None else serial_start
    rows = []
    # model numbers need not be 1..N (a selection from an ensemble keeps its numbers)
    numbering = rng.choice(["1..N", "1..N", "offset", "gaps", "unordered"]) if model_numbers is None else model_numbers
    if numbering == "offset":
        off = rng.choice([1, 2, 6])
        mnum = {m: m + off for m in range(1, nmodels + 1)}
    elif numbering == "gaps":
        cur, mnum = rng.choice([1, 2, 3]), {}
        for m in range(1, nmodels + 1):
            mnum[m] = cur
            cur += rng.choice([1, 2, 3, 5])
    elif numbering == "unordered" and nmodels > 1:
        # the first model of the file is not the lowest-numbered one (3, 1, 2 / 7, 4)
        nums = rng.sample(range(1, nmodels + 4), nmodels)
        if nums[0] == min(nums):
            nums[0], nums[-1] = nums[-1], nums[0]
        mnum = {m: nums[m - 1] for m in range(1, nmodels + 1)}
    else:
        mnum = {m: m for m in range(1, nmodels + 1)}
    for m in range(1, nmodels + 1):
        if not shared_identities and m > 1:
            break
        # NMR models may share coordinates for rigid parts: sometimes no shift at all
        shift = 0.0 if (m == 1 or rng.random() < 0.3) else round(rng.uniform(0.6, 3.0), 3) * (1 if m % 2 else -1)
        for res in template:
            for a in res["atoms"]:
                if a.get("only_models") is not None and m not in a["only_models"]:
                    continue
                serial += 1
                rows.append({
                    "rec": res["rec"], "serial": serial, "name": a["name"], "alt": a["alt"], "resname": res["resname"], "chain": res["chain"],
                    "resseq": res["resseq"], "icode": res["icode"], "x": _sh(a["xyz"][0], shift), "y": _sh(a["xyz"][1], -shift), "z": _sh(a["xyz"][2], shift / 2),
                    "occ": a["occ"], "b": round(rng.uniform(0, 99.99), 2), "element": element_of(a["name"]),
                    "charge": (rng.choice(["1+", "2+", "1-", "2-"]) if charges and rng.random() < 0.1 else None), "model": mnum[m],
                })
    return rows


def scatter_residue_atoms(rng, rows, p=0.5):
    """Make some residues non-contiguous inside their chain (alternate conformers stored
    as a block, hydrogens or ligand atoms appended after the next residue / at the end
    of the chain): the tail of a residue's rows is moved behind a later residue of the
    same (model, chain).  Serials are renumbered in the new file order.  Returns the
    number of residues scattered."""
    blocks = []  # [(model, chain), [residue-run, ...]]
    for r in rows:
        key = (r["model"], r["chain"])
        rk = (r["resseq"], r["icode"], r["resname"])
        if not blocks or blocks[-1][0] != key:
            blocks.append((key, []))
        runs = blocks[-1][1]
        if not runs or runs[-1][0] != rk:
            runs.append((rk, []))
        runs[-1][1].append(r)
    moved = 0
    out = []
    for key, runs in blocks:
        runs = [(rk, list(rs)) for rk, rs in runs]
        i = 0
        while i < len(runs) - 1:
            rk, rs = runs[i]
            if len(rs) >= 2 and rng.random() < p:
                cut = rng.randint(1, len(rs) - 1)
                tail = rs[cut:]
                del rs[cut:]
                dest = rng.randint(i + 1, len(runs) - 1)
                runs.insert(dest + 1, (rk, tail))
                moved += 1
                i += 1
            i += 1
        for rk, rs in runs:
            out.extend(rs)
    if moved:
        serials = sorted(r["serial"] for r in rows)
        for r, sn in zip(out, serials):
            r["serial"] = sn
        rows[:] = out
    return moved


def template_rows(structure, max_res=12, start=0):
    """Abstract rows lifted from a parsed corpus structure (nucleotide-like
    residues keep their chi / O3'-P geometry)."""
    from vmon import emit

    rows = emit.rows_from_structure(structure)
    keys = []
    for r in rows:
        k = (r["model"], r["chain"], r["resseq"], r["icode"])
        if k not in keys:
            keys.append(k)
    keep = set(keys[start : start + max_res])
    out = [dict(r) for r in rows if (r["model"], r["chain"], r["resseq"], r["icode"]) in keep]
    for i, r in enumerate(out, 1):
        r["serial"] = i
    return out
