"""Runs one rnapolis tool main() (or a small library script) in this fresh
interpreter.  usage: python -m vmon.launch <what> [argv...]"""
import io
import os
import sys


def lib2d(path):
    from rnapolis.common import BpSeq

    def once():
        b = BpSeq.from_file(path)
        out = []
        out.append("optimal " + b.dot_bracket.structure)
        out.append("fcfs " + b.fcfs.structure)
        for d in b.all_dot_brackets:
            out.append("all " + d.structure)
        for part in b.elements:
            for e in part:
                out.append(str(e))
        out.append(str(b.without_isolated()))
        out.append(str(b.without_pseudoknots()))
        return "\n".join(out)

    a, b = once(), once()
    print(a)
    print("INPROCESS-REPEAT-EQUAL", a == b)


def lib2d_batch(*paths):
    """Several inputs handled one after the other in ONE interpreter; each section must equal
    what a fresh interpreter prints for that input alone."""
    from rnapolis.common import BpSeq

    for k, path in enumerate(paths):
        b = BpSeq.from_file(path)
        print(f"### {k}")
        try:
            _lib2d_section(b)
        except Exception as e:
            print("raised", type(e).__name__)
        import pulp

        try:
            from vmon import core

            core.SolverWatch.injecting += 1  # this failure is the workload's own doing
            try:
                print("broken-solver " + BpSeq.from_file(path).convert_to_dot_bracket(pulp.COIN_CMD(path="/nonexistent/vmon/cbc", msg=False)).structure)
            finally:
                core.SolverWatch.injecting -= 1
        except Exception as e:
            print("broken-solver raised " + type(e).__name__)


def _lib2d_section(b):
    if True:
        print("optimal " + b.dot_bracket.structure)
        print("fcfs " + b.fcfs.structure)
        for d in b.all_dot_brackets:
            print("all " + d.structure)
        for part in b.elements:
            for e in part:
                print(str(e))
        print(str(b.without_isolated()))
        print(str(b.without_pseudoknots()))


def writecif(path):
    """Written mmCIF / PDB text of a parsed table, as returned string, through a handle and through a path."""
    import io
    import os
    import tempfile

    from rnapolis import parser_v2

    def once():
        with open(path) as f:
            df = parser_v2.parse_cif_atoms(f) if path.endswith(".cif") else parser_v2.parse_pdb_atoms(f)
        out = ["== write_cif -> str", parser_v2.write_cif(df)]
        buf = io.StringIO()
        parser_v2.write_cif(df, buf)
        out += ["== write_cif -> handle", buf.getvalue()]
        d = tempfile.mkdtemp()
        pth = os.path.join(d, "model.cif")
        parser_v2.write_cif(df, pth)
        out += ["== write_cif -> path", open(pth).read()]
        os.remove(pth)
        os.rmdir(d)
        if parser_v2.can_write_pdb(df):
            out += ["== write_pdb -> str", parser_v2.write_pdb(df)]
        return "\n".join(out)

    a, b = once(), once()
    print(a)
    print("INPROCESS-REPEAT-EQUAL", a == b)


def transform_batch(*paths):
    """mmCIF item editing of several files in a row in ONE interpreter."""
    import hashlib
    import string

    from rnapolis import transformer

    alphabet = "".join(c for c in string.printable if c not in string.whitespace)
    for k, path in enumerate(paths):
        text = open(path).read()
        print(f"### {k}")
        # an input that makes one call raise (more distinct values than symbols) must not end the batch: the
        # exception type is part of that input's section, in the batch and in the single run alike
        try:
            out, mapping = transformer.replace_value(text, "atom_site", "auth_asym_id", alphabet)
            print("replace", hashlib.sha256(out.encode()).hexdigest(), sorted(mapping.items()))
        except Exception as e:
            print("replace raised", type(e).__name__)
        try:
            out2 = transformer.copy_from_to(text, "atom_site", "label_asym_id", "auth_asym_id")
            print("copy", hashlib.sha256(out2.encode()).hexdigest())
        except Exception as e:
            print("copy raised", type(e).__name__)
        try:
            out3, mapping3 = transformer.replace_value(text, "atom_site", "label_seq_id", alphabet)
            print("replace-seq", hashlib.sha256(out3.encode()).hexdigest(), len(mapping3))
        except Exception as e:
            print("replace-seq raised", type(e).__name__)


def convert_batch(*paths):
    """Format conversion of several files in a row in ONE interpreter: table-level reader, fitting to PDB limits,
    both writers.  What is printed per input is a digest of the written texts (or the exception type)."""
    import hashlib

    from rnapolis import parser_v2

    for k, path in enumerate(paths):
        print(f"### {k}")
        try:
            text = open(path).read()
            df = parser_v2.parse_pdb_atoms(text) if path.endswith(".pdb") else parser_v2.parse_cif_atoms(text)
            print("atoms", len(df))
        except Exception as e:
            print("read raised", type(e).__name__)
            continue
        try:
            fitted = parser_v2.fit_to_pdb(df)
            out = parser_v2.write_pdb(fitted)
            print("pdb", hashlib.sha256(out.encode()).hexdigest(), out.splitlines()[0][:80] if out else "")
        except Exception as e:
            print("pdb raised", type(e).__name__)
        try:
            out = parser_v2.write_cif(df)
            print("cif", hashlib.sha256(out.encode()).hexdigest())
        except Exception as e:
            print("cif raised", type(e).__name__)
        try:
            out = parser_v2.write_cif(parser_v2.fit_to_pdb(df))
            print("cif-of-fitted", hashlib.sha256(out.encode()).hexdigest())
        except Exception as e:
            print("cif-of-fitted raised", type(e).__name__)


def lib3d_batch(*paths):
    from rnapolis.annotator import extract_secondary_structure
    from rnapolis.parser import read_3d_structure
    from rnapolis.util import handle_input_file

    for k, path in enumerate(paths):
        print(f"### {k}")
        try:
            s = read_3d_structure(handle_input_file(path), None)
            s2d, dbs = extract_secondary_structure(s, None, False, True)
        except Exception as e:
            print("raised", type(e).__name__)
            continue
        print(s2d.bpseq)
        print(s2d.extendedDotBracket)
        print("\n".join(dbs))
        for x in s2d.baseInteractions.basePairs + s2d.baseInteractions.stackings + s2d.baseInteractions.baseRiboseInteractions + s2d.baseInteractions.basePhosphateInteractions:
            print(repr(x))
        for p in s2d.interStemParameters:
            print(repr(p))


def lib3d(path, find_gaps):
    from rnapolis.annotator import extract_base_interactions
    from rnapolis.parser import read_3d_structure
    from rnapolis.tertiary import Mapping2D3D
    from rnapolis.util import handle_input_file

    def once():
        s = read_3d_structure(handle_input_file(path), None)
        bi = extract_base_interactions(s)
        m = Mapping2D3D(s, bi.basePairs, bi.stackings, find_gaps == "1")
        out = [str(m.bpseq), m.dot_bracket, m.extended_dot_bracket]
        out += m.all_dot_brackets
        out += [repr(x) for x in bi.basePairs + bi.stackings + bi.baseRiboseInteractions + bi.basePhosphateInteractions]
        return "\n".join(out)

    a, b = once(), once()
    print(a)
    print("INPROCESS-REPEAT-EQUAL", a == b)


def fr3d_listing(path, seedstr):
    """An FR3D listing of a corpus structure's own interactions in which some rows are repeated (two listings
    concatenated with an overlap; the copies carry Windows line endings or trailing blanks), through the adapter."""
    import json
    import random

    from rnapolis import adapter
    from rnapolis.annotator import extract_base_interactions
    from rnapolis.parser import read_3d_structure
    from rnapolis.util import handle_input_file

    s = read_3d_structure(handle_input_file(path), None)
    bi = extract_base_interactions(s)
    rng = random.Random(seedstr)

    def unit(r):
        a = r.auth
        return "|".join(["XXXX", "1", a.chain, a.name, str(a.number)] + (["", "", a.icode] if a.icode else []))

    rows = []
    for p in bi.basePairs:
        if p.nt1.auth is not None and p.nt2.auth is not None:
            rows.append(f"{unit(p.nt1)}\t{p.lw.value}\t{unit(p.nt2)}\t0")
    for p in bi.stackings:
        if p.nt1.auth is not None and p.nt2.auth is not None:
            rows.append(f"{unit(p.nt1)}\t{ {'upward': 's35', 'downward': 's53', 'inward': 's33', 'outward': 's55'}[p.topology.value] }\t{unit(p.nt2)}\t0")
    if not rows:
        # residues without author identifiers have no FR3D unit id: nothing to import, nothing to compare
        print("no rows")
        print("INPROCESS-REPEAT-EQUAL", True)
        return
    again = rng.sample(rows, min(len(rows), rng.randint(2, 5)))
    text = "\n".join(rows) + "\n" + "".join(r + rng.choice(["\r\n", "  \n", "\n"]) for r in again)
    with open("listing.txt", "w", newline="") as fh:
        fh.write(text)

    def once():
        s2d, dbs, mapping = adapter.process_external_tool_output(s, "listing.txt", adapter.ExternalTool.FR3D, None, False, True)
        out = [s2d.bpseq, s2d.dotBracket, s2d.extendedDotBracket] + list(dbs)
        out += [repr(x) for x in s2d.baseInteractions.basePairs] + [repr(x) for x in s2d.baseInteractions.stackings]
        return "\n".join(out)

    a, b = once(), once()
    print(a)
    print("INPROCESS-REPEAT-EQUAL", a == b)
    os.remove("listing.txt")


def external_conflicts(path, seedstr):
    """An external tool's pair list over a corpus structure: the structure's own pairs plus
    extra canonical pairs that give residues a second (and third) partner of the same rank,
    exact and reversed duplicates - pushed through the adapter's library entry point."""
    import random

    from rnapolis.adapter import extract_secondary_structure_from_external
    from rnapolis.annotator import extract_base_interactions
    from rnapolis.common import BaseInteractions, BasePair, LeontisWesthof
    from rnapolis.parser import read_3d_structure
    from rnapolis.util import handle_input_file

    s = read_3d_structure(handle_input_file(path), None)
    bi = extract_base_interactions(s)
    rng = random.Random(seedstr)  # str seeding is independent of PYTHONHASHSEED
    res2d = {}
    for r in s.residues:
        if r.is_nucleotide:
            res2d.setdefault(r.one_letter_name.upper(), []).append(r)
    by3d = {}
    for r in s.residues:
        by3d[(r.label, r.auth)] = r
    pairs = list(bi.basePairs)
    canon = [p for p in pairs if p.lw == LeontisWesthof.cWW and p.saenger is not None]
    extra = []
    pos = {(r.label, r.auth): k for k, r in enumerate(s.residues)}
    for p in rng.sample(canon, min(len(canon), 4)):
        r2 = by3d.get((p.nt2.label, p.nt2.auth))
        if r2 is None:
            continue
        # the second partner is a neighbour of the first one (a register shift, as near pairs of
        # external tools are): no new long-range knots, whose k! dot-bracket enumeration would not end
        cands = [r for r in res2d.get(r2.one_letter_name.upper(), []) if (r.label, r.auth) not in ((p.nt2.label, p.nt2.auth), (p.nt1.label, p.nt1.auth))
                 and abs(pos[(r.label, r.auth)] - pos[(r2.label, r2.auth)]) <= 3]
        for r in rng.sample(cands, min(len(cands), rng.choice([1, 1, 2]))):
            from rnapolis.common import Residue

            q = BasePair(p.nt1, Residue(r.label, r.auth), p.lw, p.saenger)
            extra.append(q)
            if rng.random() < 0.3:
                extra.append(BasePair(q.nt2, q.nt1, q.lw, q.saenger))
    # a chain numbered from 0 by its authors: the nucleotide numbered 0 and its neighbour (same base) compete for one partner
    for k, r0 in enumerate(s.residues):
        if r0.auth is not None and r0.auth.number == 0 and r0.is_nucleotide and k + 1 < len(s.residues):
            r1 = s.residues[k + 1]
            if r1.chain == r0.chain and r1.one_letter_name.upper() == r0.one_letter_name.upper():
                from rnapolis.common import Residue

                for p in canon:
                    if (p.nt1.label, p.nt1.auth) == (r0.label, r0.auth):
                        extra.append(BasePair(Residue(r1.label, r1.auth), p.nt2, p.lw, p.saenger))
                    elif (p.nt2.label, p.nt2.auth) == (r0.label, r0.auth):
                        extra.append(BasePair(p.nt1, Residue(r1.label, r1.auth), p.lw, p.saenger))
    # a second partner at the same distance on the other side (i - d and i + d, same base): rankings by sequence
    # separation tie exactly
    order = list(s.residues)
    mirrored = 0
    for p in canon:
        k1, k2 = pos.get((p.nt1.label, p.nt1.auth)), pos.get((p.nt2.label, p.nt2.auth))
        if k1 is None or k2 is None or mirrored >= 3:
            continue
        km = 2 * k1 - k2
        if 0 <= km < len(order) and km not in (k1, k2):
            m, r2 = order[km], order[k2]
            if m.is_nucleotide and m.one_letter_name.upper() == r2.one_letter_name.upper() and rng.random() < 0.5:
                from rnapolis.common import Residue

                extra.append(BasePair(p.nt1, Residue(m.label, m.auth), p.lw, p.saenger))
                mirrored += 1
    # chains whose names differ by letter case only: a nucleotide paired with a residue of chain A is also listed as
    # paired with the equally numbered residue of chain a (and the other way round)
    bycase = {}
    for r in s.residues:
        if r.auth is not None and r.is_nucleotide:
            bycase.setdefault((r.auth.chain.lower(), r.auth.number, r.auth.icode), []).append(r)
    if any(len(v) > 1 for v in bycase.values()):
        from rnapolis.common import Residue

        for p in rng.sample(canon, min(len(canon), 6)):
            r2 = by3d.get((p.nt2.label, p.nt2.auth))
            if r2 is None or r2.auth is None:
                continue
            for r in bycase.get((r2.auth.chain.lower(), r2.auth.number, r2.auth.icode), []):
                if r is not r2:
                    extra.append(BasePair(p.nt1, Residue(r.label, r.auth), p.lw, p.saenger))
    allp = pairs + extra
    rng.shuffle(allp)
    ext = BaseInteractions(allp, bi.stackings, bi.baseRiboseInteractions, bi.basePhosphateInteractions, bi.otherInteractions)

    def once():
        s2d, dbs, mapping = extract_secondary_structure_from_external(s, ext, None, False, False)
        out = [s2d.bpseq, s2d.dotBracket, s2d.extendedDotBracket] + list(dbs)
        for group in (s2d.stems, s2d.singleStrands, s2d.hairpins, s2d.loops):
            out += [str(e) for e in group]
        out += [repr(x) for x in s2d.interStemParameters]
        return "\n".join(out)

    a, b = once(), once()
    print(len(extra), "extra pairs")
    print(a)
    print("INPROCESS-REPEAT-EQUAL", a == b)


def main():
    repo = os.environ.get("VERIF_REPO", "/repo")
    sys.path.insert(0, os.path.join(repo, "src"))
    what, argv = sys.argv[1], sys.argv[2:]
    # failures of the MILP solver process that nothing injected are reported on stderr at exit (stdout and the written
    # files are what gets compared; the caller repeats a run that carries this marker)
    import atexit

    from vmon import core

    core.SolverWatch.install()
    atexit.register(lambda: core.SolverWatch.unexpected and sys.stderr.write("\nVMON-SOLVER-FAILURE-NOBODY-INJECTED %d\n" % core.SolverWatch.unexpected))
    if what == "lib2d":
        return lib2d(*argv)
    if what == "lib3d":
        return lib3d(*argv)
    if what == "external_conflicts":
        return external_conflicts(*argv)
    if what == "fr3d_listing":
        return fr3d_listing(*argv)
    if what == "writecif":
        return writecif(*argv)
    if what == "transform_batch":
        return transform_batch(*argv)
    if what == "convert_batch":
        return convert_batch(*argv)
    if what == "lib2d_batch":
        return lib2d_batch(*argv)
    if what == "lib3d_batch":
        return lib3d_batch(*argv)
    import importlib

    mod = importlib.import_module(f"rnapolis.{what}")
    sys.argv = [what] + argv
    mod.main()


if __name__ == "__main__":
    main()
