"""Runs one rnapolis tool main() (or a small library script) in this fresh
interpreter.  usage: python -m vmon.launch <what> [argv...]"""
import io
import os
import sys


def lib2d(path):
    from rnapolis.common import BpSeq

    def once():
        b = BpSeq.from_file(path)
        out = []
        out.append("optimal " + b.dot_bracket.structure)
        out.append("fcfs " + b.fcfs.structure)
        for d in b.all_dot_brackets:
            out.append("all " + d.structure)
        for part in b.elements:
            for e in part:
                out.append(str(e))
        out.append(str(b.without_isolated()))
        out.append(str(b.without_pseudoknots()))
        return "\n".join(out)

    a, b = once(), once()
    print(a)
    print("INPROCESS-REPEAT-EQUAL", a == b)


def lib2d_batch(*paths):
    """Several inputs handled one after the other in ONE interpreter; each section must equal
    what a fresh interpreter prints for that input alone."""
    from rnapolis.common import BpSeq

    for k, path in enumerate(paths):
        b = BpSeq.from_file(path)
        print(f"### {k}")
        print("optimal " + b.dot_bracket.structure)
        print("fcfs " + b.fcfs.structure)
        for d in b.all_dot_brackets:
            print("all " + d.structure)
        for part in b.elements:
            for e in part:
                print(str(e))
        print(str(b.without_isolated()))
        print(str(b.without_pseudoknots()))


def lib3d_batch(*paths):
    from rnapolis.annotator import extract_secondary_structure
    from rnapolis.parser import read_3d_structure
    from rnapolis.util import handle_input_file

    for k, path in enumerate(paths):
        s = read_3d_structure(handle_input_file(path), None)
        s2d, dbs = extract_secondary_structure(s, None, False, True)
        print(f"### {k}")
        print(s2d.bpseq)
        print(s2d.extendedDotBracket)
        print("\n".join(dbs))
        for x in s2d.baseInteractions.basePairs + s2d.baseInteractions.stackings + s2d.baseInteractions.baseRiboseInteractions + s2d.baseInteractions.basePhosphateInteractions:
            print(repr(x))
        for p in s2d.interStemParameters:
            print(repr(p))


def lib3d(path, find_gaps):
    from rnapolis.annotator import extract_base_interactions
    from rnapolis.parser import read_3d_structure
    from rnapolis.tertiary import Mapping2D3D
    from rnapolis.util import handle_input_file

    def once():
        s = read_3d_structure(handle_input_file(path), None)
        bi = extract_base_interactions(s)
        m = Mapping2D3D(s, bi.basePairs, bi.stackings, find_gaps == "1")
        out = [str(m.bpseq), m.dot_bracket, m.extended_dot_bracket]
        out += m.all_dot_brackets
        out += [repr(x) for x in bi.basePairs + bi.stackings + bi.baseRiboseInteractions + bi.basePhosphateInteractions]
        return "\n".join(out)

    a, b = once(), once()
    print(a)
    print("INPROCESS-REPEAT-EQUAL", a == b)


def main():
    repo = os.environ.get("VERIF_REPO", "/repo")
    sys.path.insert(0, os.path.join(repo, "src"))
    what, argv = sys.argv[1], sys.argv[2:]
    if what == "lib2d":
        return lib2d(*argv)
    if what == "lib3d":
        return lib3d(*argv)
    if what == "lib2d_batch":
        return lib2d_batch(*argv)
    if what == "lib3d_batch":
        return lib3d_batch(*argv)
    import importlib

    mod = importlib.import_module(f"rnapolis.{what}")
    sys.argv = [what] + argv
    mod.main()


if __name__ == "__main__":
    main()
