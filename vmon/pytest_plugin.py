"""pytest plugin: run the repository's own test-suite with every 'judge any call'
monitor attached (contracts on the real functions).  Used by
tools/suite_under_monitors.sh; lives in /verif, not in /repo."""
import json
import os

from vmon import core

_state = {}


def pytest_configure(config):
    core.setup_path()
    rec = core.Rec("SUITE")
    reach = core.Reach()
    from vmon import mon3d
    from vmon.props import c01, c02, c06, c07, c09, c16, c17, c18, c19, c20

    rec.begin({"family": "repo-test-suite"})
    for mod in (c01, c02, c16, c07, c06, c18, c19, c20, c17, c09):
        mod.setup(rec, reach)
    mon3d.attach(rec, reach, {"C03", "C04", "C11"})
    _state["rec"] = rec


def pytest_runtest_setup(item):
    from vmon import mon3d
    from vmon.props import c06, c17

    ctx = {"test": item.nodeid}
    mon3d._cur["ctx"] = ctx
    c06._cur["ctx"] = ctx
    c17._cur["ctx"] = ctx


def pytest_sessionfinish(session, exitstatus):
    rec = _state.get("rec")
    if rec is None:
        return
    out = os.environ.get("VMON_SUITE_OUT")
    if out:
        d = rec.dump()
        d["monitor_faults"] = core.Attached.faults[:5]
        with open(out, "w") as f:
            json.dump(d, f, indent=1, default=str)
