"""Generators of secondary structures (plain data: N, sorted pair list)."""
import random
import string

OPEN = "([{<" + string.ascii_uppercase
CLOSE = ")]}>" + string.ascii_lowercase


def matchings(n):
    """All partial matchings of 1..n as sorted pair lists."""

    def rec(free):
        if not free:
            yield []
            return
        i = free[0]
        rest = free[1:]
        yield from rec(rest)
        for k, j in enumerate(rest):
            for m in rec(rest[:k] + rest[k + 1 :]):
                yield [(i, j)] + m

    return rec(list(range(1, n + 1)))


def seq_for(n, rng=None, placeholders=True):
    """Residue letters are opaque to the 2D code: upper case, lower case (the library writes modified
    residues in lower case), N and the '?' placeholder of a missing residue occur."""
    if rng is None:
        return "".join("ACGUgcNau?"[i % 10] for i in range(1, n + 1))
    # the multi-strand TEXT format admits IUPAC letters only: no '?' there (placeholders=False)
    return "".join(rng.choice("ACGUACGUacgun?" if placeholders else "ACGUACGUacgun") for _ in range(n))


def random_stems(rng, nstems, maxlen=6, spacer=(0, 4), shape=None):
    """Random structure built from `nstems` stems.  Each stem has two arms;
    arms are laid out by a random interleaving of arm tokens, which gives
    arbitrary nesting/crossing.  Returns (N, pairs)."""
    lens = [rng.randint(1, maxlen) for _ in range(nstems)]
    # token order: a random sequence in which each stem appears twice
    toks = []
    if shape == "ladder":
        # stem i crosses all others: open all, then close all in same order
        toks = list(range(nstems)) + list(range(nstems))
    elif shape == "nested":
        toks = list(range(nstems)) + list(reversed(range(nstems)))
    elif shape == "chain":
        # i crosses i+1 only: a0 a1 b0 a2 b1 a3 b2 ...
        toks = [0]
        for i in range(1, nstems):
            toks += [i, i - 1]
        toks.append(nstems - 1)
    else:
        toks = list(range(nstems)) * 2
        rng.shuffle(toks)
    pos = 1
    seen = {}
    arms = {}
    for t in toks:
        pos += rng.randint(*spacer)
        L = lens[t]
        if t not in seen:
            seen[t] = True
            arms[t] = [list(range(pos, pos + L))]
        else:
            arms[t].append(list(range(pos, pos + L)))
        pos += L
    pos += rng.randint(*spacer)
    n = pos - 1
    pairs = []
    for t, (a, b) in arms.items():
        for k in range(lens[t]):
            pairs.append((a[k], b[lens[t] - 1 - k]))
    pairs.sort()
    return n, pairs


def random_matching(rng, n, density):
    free = list(range(1, n + 1))
    rng.shuffle(free)
    k = int(len(free) * density / 2)
    pairs = []
    for t in range(k):
        i, j = free[2 * t], free[2 * t + 1]
        pairs.append((min(i, j), max(i, j)))
    pairs.sort()
    return pairs


HOSTILE = [
    # (name, N, pairs)
    ("empty", 0, []),
    ("nopairs", 5, []),
    ("single", 2, [(1, 2)]),
    ("hairpin0", 4, [(1, 4), (2, 3)]),
    ("single-in-unpaired", 7, [(3, 5)]),
    ("adjacent-stems", 8, [(1, 2), (3, 4), (5, 6), (7, 8)]),
    ("H-type", 10, [(1, 6), (2, 5), (4, 9)]),
    ("H-type-short-first", 12, [(1, 5), (3, 10), (4, 9), (8, 12)]),
    ("short-first-1-3", 10, [(1, 6), (3, 10), (4, 9), (5, 8)]),
    ("short-first-2-4", 16, [(1, 9), (2, 8), (4, 16), (5, 15), (6, 14), (7, 13)]),
    ("kissing", 16, [(1, 8), (2, 7), (4, 13), (5, 12), (10, 16), (11, 15)]),
    ("triple-cross", 6, [(1, 4), (2, 5), (3, 6)]),
    ("triangle-short-first", 14, [(1, 7), (3, 10), (4, 9), (5, 13), (6, 12), (8, 14)]),
    ("bulge1", 9, [(1, 9), (2, 8), (4, 7)]),
    ("pk-multiloop", 20, [(1, 20), (2, 19), (4, 8), (6, 12), (10, 16), (14, 18)]),
    ("isolated-mix", 12, [(1, 12), (3, 10), (4, 9), (6, 7)]),
    ("isolated-knot", 11, [(1, 6), (2, 5), (4, 9), (7, 11), (8, 10)]),
]


def _many_stems():
    """More than ten stems with knots (variable / region indices get two digits)."""
    out = []
    pairs, pos = [], 1
    for h in range(10):  # ten hairpins
        pairs += [(pos, pos + 5), (pos + 1, pos + 4)]
        pos += 7
    pairs += [(pos, pos + 8), (pos + 1, pos + 7), (pos + 1 + 3, pos + 13), (pos + 1 + 4, pos + 12)]  # H-type
    out.append(("hairpins10+H-type", pos + 14, sorted(pairs)))
    pairs, pos = [], 1
    for h in range(6):  # six consecutive H-type knots, short stem first in every second one
        a, b = (1, 3) if h % 2 else (3, 1)
        s1 = [(pos + i, pos + 2 * a + b + 2 - i) for i in range(a)]
        s2 = [(pos + a + 1 + i, pos + 2 * a + 2 * b + 4 - i) for i in range(b)]
        pairs += s1 + s2
        pos += 2 * a + 2 * b + 6
    out.append(("six-H-types", pos, sorted(pairs)))
    return out


def thousand_stems(k=1100):
    """More than a thousand stems: k one-pair hairpins '(.)' followed by an H-type knot whose stems are single
    pairs (stem indices have four digits; per-stem weights, names and tie-breakers meet their largest values)."""
    pairs, pos = [], 1
    for _ in range(k):
        pairs.append((pos, pos + 2))
        pos += 4
    pairs += [(pos, pos + 4), (pos + 2, pos + 6)]
    return f"hairpins{k}+single-pair-H-type", pos + 7, sorted(pairs)


def deep_nest_under_a_crossing_stem(depth):
    """Stem X opens, then `depth` helices nested in one another open (single pairs, one unpaired nucleotide between them so
    that each is a stem of its own), X closes INSIDE the innermost one, then the helices close: X crosses all of them and
    `depth` + 1 regions are open at once."""
    pairs, pos = [], 1
    x5 = pos; pos += 2
    opens = []
    for _ in range(depth):
        opens.append(pos); pos += 2
    x3 = pos; pos += 2
    for o in reversed(opens):
        pairs.append((o, pos)); pos += 2
    pairs.append((x5, x3))
    return f"{depth}-nested-helices-under-a-crossing-stem", pos - 1, sorted(pairs)


def fan_and_chain(fan):
    """A 3-pair helix crossed by `fan` nested single pairs (its degree is `fan`), followed by a chain a x b x c x d of
    crossing stems with long a, d (5 pairs) and single-pair b, c: first-come-first-served needs two levels for the
    chain, the optimum three."""
    pairs, pos = [], 1
    h5 = [pos, pos + 1, pos + 2]; pos += 4
    opens = list(range(pos, pos + 2 * fan, 2)); pos += 2 * fan + 1     # fan opening positions, spaced by one
    h3 = [pos, pos + 1, pos + 2]; pos += 4
    closes = list(range(pos, pos + 2 * fan, 2)); pos += 2 * fan + 1
    pairs += list(zip(h5, reversed(h3)))
    pairs += list(zip(opens, reversed(closes)))                          # nested among themselves, each crossing the helix
    # chain: a opens, b opens, a closes, c opens, b closes, d opens, c closes, d closes
    def block(L):
        nonlocal pos
        r = list(range(pos, pos + L)); pos += L + 1
        return r
    a5 = block(5); b5 = block(1); a3 = block(5); c5 = block(1); b3 = block(1); d5 = block(5); c3 = block(1); d3 = block(5)
    for x5, x3 in ((a5, a3), (b5, b3), (c5, c3), (d5, d3)):
        pairs += list(zip(x5, reversed(x3)))
    return f"fan-of-{fan}-across-a-helix+chain-5-1-1-5", pos - 1, sorted(pairs)


def many_small_knots(units, a=2, b=4, gap=1):
    """A chain of `units` H-type pseudoknots whose 5' stem (a pairs) is shorter than the stem crossing it (b pairs):
    first-come-first-served puts the long stems on level 1, the optimum puts the short ones there; 2 * units stems
    take part in crossings."""
    pairs, pos = [], 1
    for _ in range(units):
        A = list(range(pos, pos + a)); pos += a + gap
        B = list(range(pos, pos + b)); pos += b + gap
        Ac = list(range(pos, pos + a)); pos += a + gap
        Bc = list(range(pos, pos + b)); pos += b + gap
        pairs += list(zip(A, reversed(Ac))) + list(zip(B, reversed(Bc)))
    return f"chain-of-{units}-H-types-short-stem-first", pos - 1, sorted(pairs)


def hostile():
    out = list(HOSTILE) + _many_stems()
    # ladders needing many levels
    for k in (5, 12, 30):
        pairs = [(i + 1, k + i + 1) for i in range(k)]
        # break stacking: insert spacer so that each pair is its own stem
        pairs = [(2 * i + 1, 2 * k + 2 * i + 1) for i in range(k)]
        # CBC needs > 20 min for the 30-clique (900 binaries); ladder30 is
        # therefore only driven through FCFS (flag checked by the workloads)
        out.append((f"ladder{k}", 4 * k, pairs))
    return out


def random_dotbracket(rng, n, ntypes):
    """Random balanced string over the first `ntypes` bracket types (crossing
    between types allowed)."""
    s = ["."] * n
    free = list(range(n))
    rng.shuffle(free)
    # per type: choose an even number of positions, fill as a random balanced word
    types = list(range(ntypes))
    idx = 0
    for t in types:
        k = rng.randint(0, max(0, min(4, (len(free) - idx) // 2)))
        if t == types[0]:
            k = max(k, 1) if len(free) - idx >= 2 else 0
        pos = sorted(free[idx : idx + 2 * k])
        idx += 2 * k
        # random balanced word of length 2k
        opens = 0
        left = k
        for q, p in enumerate(pos):
            remaining = len(pos) - q
            if left > 0 and (opens == 0 or (rng.random() < 0.5 and opens < remaining)):
                s[p] = OPEN[t]
                opens += 1
                left -= 1
            else:
                s[p] = CLOSE[t]
                opens -= 1
    return "".join(s)


def bpseq_text_variants(text):
    """The same BPSEQ rows as other programs and editors write them."""
    rows = [l.split() for l in text.splitlines() if l.strip()]
    w = max(5, max(len(r[0]) for r in rows) + 1) if rows else 5
    return [
        ("right-aligned-columns", "\n".join(f"{r[0]:>{w}} {r[1]} {r[2]:>{w}}" for r in rows) + "\n"),
        ("trailing-blanks-and-tabs", "\n".join(" ".join(r) + ("  " if i % 2 else "\t") for i, r in enumerate(rows)) + "\n"),
        ("windows-line-endings", "\r\n".join(" ".join(r) for r in rows) + "\r\n"),
        ("tab-separated", "\n".join("\t".join(r) for r in rows) + "\n"),
        ("blank-lines-in-the-middle", "\n\n".join(" ".join(r) for r in rows) + "\n\n"),
        ("no-final-newline", "\n".join(" ".join(r) for r in rows)),
    ]
