"""Independent reference oracles for secondary structures.  Pure Python, no
import of the library."""
import itertools
import string

OPEN = "([{<" + string.ascii_uppercase
CLOSE = ")]}>" + string.ascii_lowercase
ALPHABET = set(OPEN) | set(CLOSE) | {"."}


def decode(s):
    """Per-type stack decode.  Returns ({(i,j): level}, None) with 1-based
    positions or (None, reason)."""
    st = {c: [] for c in OPEN}
    pairs = {}
    for i, c in enumerate(s, 1):
        if c == ".":
            continue
        k = OPEN.find(c)
        if k >= 0:
            st[c].append(i)
            continue
        k = CLOSE.find(c)
        if k < 0:
            return None, f"foreign character {c!r} at {i}"
        o = OPEN[k]
        if not st[o]:
            return None, f"unbalanced closing {c!r} at {i}"
        j = st[o].pop()
        pairs[(j, i)] = k
    for o, v in st.items():
        if v:
            return None, f"unbalanced opening {o!r} at {v[-1]}"
    return pairs, None


def cross(a, b):
    return a[0] < b[0] < a[1] < b[1] or b[0] < a[0] < b[1] < a[1]


def same_level_crossing(levels):
    """levels: {(i,j): level}.  Return a crossing pair on one level or None."""
    by = {}
    for p, l in levels.items():
        by.setdefault(l, []).append(p)
    for l, ps in by.items():
        ps.sort()
        for a, b in itertools.combinations(ps, 2):
            if cross(a, b):
                return (a, b, l)
    return None


def stems(pairs):
    """Maximal runs (i,j),(i+1,j-1),... in order of i."""
    out = []
    cur = []
    for i, j in sorted(pairs):
        if cur and cur[-1] == (i - 1, j + 1):
            cur.append((i, j))
        else:
            if cur:
                out.append(cur)
            cur = [(i, j)]
    if cur:
        out.append(cur)
    return out


def regions(stem_list):
    return [(s[0][0], s[0][1], len(s)) for s in stem_list]


def conflict_graph(reg):
    g = {i: set() for i in range(len(reg))}
    for i, j in itertools.combinations(range(len(reg)), 2):
        if cross(reg[i], reg[j]):
            g[i].add(j)
            g[j].add(i)
    return g


def components(g):
    seen = set()
    comps = []
    for v in sorted(g):
        if v in seen:
            continue
        comp = []
        stack = [v]
        seen.add(v)
        while stack:
            u = stack.pop()
            comp.append(u)
            for w in g[u]:
                if w not in seen:
                    seen.add(w)
                    stack.append(w)
        comps.append(sorted(comp))
    return comps


def objective(reg, lev):
    return sum(l if k == 0 else -k * l for (_, _, l), k in zip(reg, lev))


def fcfs_levels(reg):
    """First-come-first-served: stems in 5' order take the lowest level not
    used by an earlier crossing stem."""
    lev = []
    for i, r in enumerate(reg):
        used = {lev[j] for j in range(i) if cross(reg[j], r)}
        k = 0
        while k in used:
            k += 1
        lev.append(k)
    return lev


class Budget(Exception):
    pass


def optimum(reg, g, cap=2_000_000):
    """Exact max objective over proper assignments, per component, B&B."""
    total = 0
    steps = [0]
    for comp in components(g):
        if len(comp) == 1:
            total += reg[comp[0]][2]
            continue
        if all(len(g[i]) == len(comp) - 1 for i in comp):
            # mutually crossing stems: every stem on its own level, longest first (rearrangement inequality)
            ls = sorted((reg[i][2] for i in comp), reverse=True)
            total += ls[0] - sum(k * L for k, L in enumerate(ls) if k)
            continue
        order = sorted(comp, key=lambda i: (-len(g[i]), -reg[i][2]))
        n = len(order)
        lev = {}
        best = [-(10**12)]
        suffix = [0] * (n + 1)
        for t in range(n - 1, -1, -1):
            suffix[t] = suffix[t + 1] + reg[order[t]][2]

        def rec(k, cur):
            steps[0] += 1
            if steps[0] > cap:
                raise Budget()
            if k == n:
                if cur > best[0]:
                    best[0] = cur
                return
            if cur + suffix[k] <= best[0]:
                return
            i = order[k]
            used = {lev[j] for j in g[i] if j in lev}
            L = reg[i][2]
            # an optimal assignment is greedy-stable, so level(i) <= deg(i)
            for c in range(len(g[i]) + 1):
                if c in used:
                    continue
                lev[i] = c
                rec(k + 1, cur + (L if c == 0 else -c * L))
                del lev[i]

        rec(0, 0)
        total += best[0]
    return total


def grundy(reg, g, cap=3_000_000):
    """All proper assignments in which every stem sits on the least level not
    used by a crossing stem of a lower level (Grundy colourings).  Returns a
    set of level tuples over all stems."""
    steps = [0]
    per_comp = []
    for comp in components(g):
        if len(comp) == 1:
            per_comp.append([{comp[0]: 0}])
            continue
        sols = []
        lev = {}
        n = len(comp)

        def rec(k):
            steps[0] += 1
            if steps[0] > cap:
                raise Budget()
            if k == n:
                for v in comp:
                    have = {lev[u] for u in g[v]}
                    if lev[v] in have:
                        return
                    if any(c not in have for c in range(lev[v])):
                        return
                sols.append(dict(lev))
                return
            i = comp[k]
            used = {lev[j] for j in g[i] if j in lev}
            for c in range(min(n, len(g[i]) + 1)):
                if c in used:
                    continue
                lev[i] = c
                rec(k + 1)
                del lev[i]

        rec(0)
        per_comp.append(sols)
    out = set()
    for combo in itertools.product(*per_comp):
        d = {}
        for part in combo:
            d.update(part)
        out.add(tuple(d[i] for i in range(len(reg))))
    return out


def grundy_product_size(reg, g, cap=3_000_000):
    """Number of members the all-dot-brackets list should have (product of the
    per-component Grundy-colouring counts) without materialising the product."""
    total = 1
    for comp in components(g):
        if len(comp) == 1:
            continue
        sub_reg = [reg[i] for i in comp]
        idx = {v: k for k, v in enumerate(comp)}
        sub_g = {idx[v]: {idx[u] for u in g[v]} for v in comp}
        total *= len(grundy(sub_reg, sub_g, cap))
    return total


def elements_ref(n, pairs):
    """Reference decomposition facts: stems, hairpins."""
    pm = {}
    for i, j in pairs:
        pm[i] = j
        pm[j] = i
    st = stems(pairs)
    unp = set(range(1, n + 1)) - set(pm)
    hairpins = sorted((i, j) for i, j in pairs if all(k in unp for k in range(i + 1, j)))
    return st, hairpins, pm, unp
