"""Dense (O(n^2), KD-tree free) geometric reference for base pairs, stacking,
base-phosphate / base-ribose contacts.  Every decision is returned with its
margin to the nearest threshold.  The tables below are frozen copies: they are
the *specification* side of C03/C04/C11 (see DESIGN.md 3.2)."""
import math

import numpy as np

from vmon.oracles import geom

EPS = 1e-6

HBOND_MAX = 4.0
HBOND_ANGLE = (50.0, 130.0)
STACK_MAX = 6.0
STACK_NORMALS = 35.0
STACK_OFFSET = 45.0

BASE_ATOMS = {
    "A": ["N1", "C2", "N3", "C4", "C5", "C6", "N6", "N7", "C8", "N9"],
    "G": ["N1", "C2", "N2", "N3", "C4", "C5", "C6", "O6", "N7", "C8", "N9"],
    "C": ["N1", "C2", "O2", "N3", "C4", "N4", "C5", "C6"],
    "U": ["N1", "C2", "O2", "N3", "C4", "O4", "C5", "C6"],
    "T": ["N1", "C2", "O2", "N3", "C4", "O4", "C5", "C6", "C7"],
}
BASE_DONORS = {
    "A": ["C2", "N6", "C8", "O2'"],
    "G": ["N1", "N2", "C8", "O2'"],
    "C": ["N4", "C5", "C6", "O2'"],
    "U": ["N3", "C5", "C6", "O2'"],
    "T": ["N3", "C6", "C7"],
}
BASE_ACCEPTORS = {
    "A": ["N1", "N3", "N7"],
    "G": ["N3", "O6", "N7"],
    "C": ["O2", "N3"],
    "U": ["O2", "O4"],
    "T": ["O2", "O4"],
}
PHOSPHATE_ACCEPTORS = ["OP1", "OP2", "O5'", "O3'"]
RIBOSE_ACCEPTORS = ["O4'", "O2'"]
BASE_EDGES = {
    "A": {"N1": "W", "C2": "WS", "N3": "S", "N6": "WH", "N7": "H", "C8": "H", "O2'": "S"},
    "G": {"N1": "W", "N2": "WS", "N3": "S", "O6": "WH", "N7": "H", "C8": "H", "O2'": "S"},
    "C": {"O2": "WS", "N3": "W", "N4": "WH", "C5": "H", "C6": "H", "O2'": "S"},
    "U": {"O2": "WS", "N3": "W", "O4": "WH", "C5": "H", "C6": "H", "O2'": "S"},
    "T": {"O2": "WS", "N3": "W", "O4": "WH", "C6": "H", "C7": "H"},
}
SAENGER = {
    ("AA", "tWW"): "I", ("AA", "tHH"): "II", ("GG", "tWW"): "III", ("GG", "tSS"): "IV",
    ("AA", "tWH"): "V", ("AA", "tHW"): "V", ("GG", "cWH"): "VI", ("GG", "cHW"): "VI",
    ("GG", "tWH"): "VII", ("GG", "tHW"): "VII", ("AG", "cWW"): "VIII", ("GA", "cWW"): "VIII",
    ("AG", "cHW"): "IX", ("GA", "cWH"): "IX", ("AG", "tWS"): "X", ("GA", "tSW"): "X",
    ("AG", "tHS"): "XI", ("GA", "tSH"): "XI", ("UU", "tWW"): "XII", ("TT", "tWW"): "XII",
    ("UU", "cWW"): "XVI", ("TT", "cWW"): "XVI", ("CU", "tWW"): "XVII", ("UC", "tWW"): "XVII",
    ("CU", "cWW"): "XVIII", ("UC", "cWW"): "XVIII", ("CG", "cWW"): "XIX", ("GC", "cWW"): "XIX",
    ("AU", "cWW"): "XX", ("UA", "cWW"): "XX", ("AT", "cWW"): "XX", ("TA", "cWW"): "XX",
    ("AU", "tWW"): "XXI", ("UA", "tWW"): "XXI", ("AT", "tWW"): "XXI", ("TA", "tWW"): "XXI",
    ("CG", "tWW"): "XXII", ("GC", "tWW"): "XXII", ("AU", "cHW"): "XXIII", ("UA", "cWH"): "XXIII",
    ("AT", "cHW"): "XXIII", ("TA", "cWH"): "XXIII", ("AU", "tHW"): "XXIV", ("UA", "tWH"): "XXIV",
    ("AT", "tHW"): "XXIV", ("TA", "tWH"): "XXIV", ("AC", "tHW"): "XXV", ("CA", "tWH"): "XXV",
    ("AC", "tWW"): "XXVI", ("CA", "tWW"): "XXVI", ("GU", "tWW"): "XXVII", ("UG", "tWW"): "XXVII",
    ("GT", "tWW"): "XXVII", ("TG", "tWW"): "XXVII", ("GU", "cWW"): "XXVIII", ("UG", "cWW"): "XXVIII",
    ("GT", "cWW"): "XXVIII", ("TG", "cWW"): "XXVIII",
}


def saenger_reverse_symmetric():
    for (seq, lw), v in SAENGER.items():
        r = (seq[::-1], lw[0] + lw[2] + lw[1])
        if SAENGER.get(r) != v:
            return (seq, lw)
    return None


class Res:
    __slots__ = ("idx", "model", "chain", "number", "icode", "name", "letter", "atoms", "key", "label", "auth", "_normal", "order")

    def __init__(self, idx, r):
        self.idx = idx
        self.model = r.model
        self.label = (r.label.chain, r.label.number, r.label.name) if r.label is not None else None
        self.auth = (r.auth.chain, r.auth.number, r.auth.icode, r.auth.name) if r.auth is not None else None
        if r.auth is not None:
            self.chain, self.number = r.auth.chain, r.auth.number
            self.icode = r.auth.icode if r.auth.icode not in (" ", "?") else None
            self.name = r.auth.name
        else:
            self.chain, self.number, self.icode, self.name = r.label.chain, r.label.number, None, r.label.name
        self.letter = r.one_letter_name
        self.atoms = {}
        for a in r.atoms:  # first occurrence wins, as find_atom does
            if a.name not in self.atoms:
                self.atoms[a.name] = np.array([a.x, a.y, a.z], dtype=float)
        self.key = (self.label, self.auth)
        self.order = (self.model, self.chain, self.number, self.icode or " ")
        self._normal = False

    @property
    def normal(self):
        if self._normal is False:
            if self.letter in "AG":
                names = ("N9", "N7", "N3")
            else:
                names = ("N1", "C4", "O2")
            if all(n in self.atoms for n in names):
                o = self.atoms[names[0]]
                v = np.cross(self.atoms[names[1]] - o, self.atoms[names[2]] - o)
                n = np.linalg.norm(v)
                self._normal = v / n if n > 0 else None
            else:
                self._normal = None
        return self._normal

    def ident(self):
        return {"model": self.model, "chain": self.chain, "number": self.number, "icode": self.icode, "name": self.name, "letter": self.letter}


def snapshot(structure, model=None):
    out = []
    for i, r in enumerate(structure.residues):
        if model is not None and r.model != model:
            continue
        out.append(Res(i, r))
    return out


def key_of_residue(res2d):
    """(label, auth) key of a library Residue (2D) object."""
    l = (res2d.label.chain, res2d.label.number, res2d.label.name) if res2d.label is not None else None
    a = (res2d.auth.chain, res2d.auth.number, res2d.auth.icode, res2d.auth.name) if res2d.auth is not None else None
    return (l, a)


def _angle_deg(u, v):
    c = float(np.dot(u, v)) / (float(np.linalg.norm(u)) * float(np.linalg.norm(v)))
    c = max(-1.0, min(1.0, c))
    return math.degrees(math.acos(c))


def _in_range_margin(x, lo, hi):
    """(inside?, margin) for an open interval (lo, hi)."""
    return (lo < x < hi), min(abs(x - lo), abs(x - hi))


class Contact:
    __slots__ = ("i", "j", "ai", "aj", "dist", "ang1", "ang2", "inside", "margin", "o2p")

    def as_dict(self, res):
        return {"res_i": res[self.i].ident(), "atom_i": self.ai, "res_j": res[self.j].ident(), "atom_j": self.aj,
                "dist": round(self.dist, 6), "angle_i": None if self.ang1 is None else round(self.ang1, 5),
                "angle_j": None if self.ang2 is None else round(self.ang2, 5), "margin": self.margin}


def hbond_contacts(res, include_o2p=True, reach=HBOND_MAX + 0.01):
    """All donor/acceptor contacts between edge atoms of different residues.
    A contact is listed when its distance is < reach; `inside` tells whether it
    satisfies distance <= 4.0 and both normal angles in (50,130); `margin` is
    the distance of the tightest quantity to its threshold."""
    names, owner, coords, kinds = [], [], [], []
    for k, r in enumerate(res):
        edges = BASE_EDGES.get(r.letter)
        if not edges:
            continue
        don = set(BASE_DONORS.get(r.letter, []))
        acc = set(BASE_ACCEPTORS.get(r.letter, []))
        for n in edges:
            if n == "O2'" and not include_o2p:
                continue
            if n in r.atoms:
                kind = set()
                if n in don:
                    kind.add("d")
                if n in acc or n == "O2'":
                    kind.add("a")
                names.append(n)
                owner.append(k)
                coords.append(r.atoms[n])
                kinds.append(kind)
    out = []
    if len(coords) < 2:
        return out
    X = np.array(coords)
    owner_a = np.array(owner)
    # dense distance matrix in blocks to bound memory
    n = len(X)
    B = max(16, min(1500, 4_000_000 // max(1, n)))  # rows per block: the temporary difference array stays below ~100 MB
    for s in range(0, n, B):
        D = np.sqrt(((X[s : s + B, None, :] - X[None, :, :]) ** 2).sum(-1))
        ii, jj = np.nonzero(D < reach)
        for a, b in zip(ii + s, jj):
            if a >= b or owner_a[a] == owner_a[b]:
                continue
            ka, kb = kinds[a], kinds[b]
            if not (("d" in ka and "a" in kb) or ("a" in ka and "d" in kb)):
                continue
            ri, rj = res[owner[a]], res[owner[b]]
            # same residue identity (label or auth equal) is "the same residue"
            if (ri.label is not None and ri.label == rj.label) or (ri.auth is not None and ri.auth == rj.auth):
                continue
            c = Contact()
            c.i, c.j, c.ai, c.aj = owner[a], owner[b], names[a], names[b]
            c.dist = float(D[a - s, b])
            c.o2p = names[a] == "O2'" or names[b] == "O2'"
            ni, nj = ri.normal, rj.normal
            if ni is None or nj is None:
                c.ang1 = c.ang2 = None
                c.inside = False
                c.margin = math.inf
            else:
                v = X[a] - X[b]
                if c.dist == 0.0:
                    c.ang1 = c.ang2 = None
                    c.inside = False
                    c.margin = 0.0
                else:
                    c.ang1 = _angle_deg(ni, v)
                    c.ang2 = _angle_deg(nj, v)
                    in1, m1 = _in_range_margin(c.ang1, *HBOND_ANGLE)
                    in2, m2 = _in_range_margin(c.ang2, *HBOND_ANGLE)
                    c.inside = c.dist <= HBOND_MAX and in1 and in2
                    c.margin = min(abs(c.dist - HBOND_MAX), m1, m2)
            out.append(c)
    return out


def cis_trans(ri, rj):
    """('c'|'t'|None, margin in degrees)."""
    def gly(r):
        return r.atoms.get("N9") if r.letter in "AG" else r.atoms.get("N1")

    a, b, c, d = ri.atoms.get("C1'"), gly(ri), gly(rj), rj.atoms.get("C1'")
    if a is None or b is None or c is None or d is None:
        return None, math.inf
    t, m = geom.dihedral(a, b, c, d)
    if math.isnan(t) or m < 1e-9:
        return "?", 0.0
    deg = math.degrees(t)
    return ("c" if -90.0 < deg < 90.0 else "t"), abs(abs(deg) - 90.0)


def edge_support(res, contacts):
    """{(i, j, edge_i, edge_j): [contact,...]} with i<j by residue order
    (model, chain, number, icode) - contacts listed regardless of `inside`."""
    sup = {}
    for c in contacts:
        ri, rj = res[c.i], res[c.j]
        ei = BASE_EDGES[ri.letter][c.ai]
        ej = BASE_EDGES[rj.letter][c.aj]
        if ri.order < rj.order or (ri.order == rj.order and c.i < c.j):
            i, j, ei_, ej_ = c.i, c.j, ei, ej
        else:
            i, j, ei_, ej_ = c.j, c.i, ej, ei
        for x in ei_:
            for y in ej_:
                sup.setdefault((i, j, x, y), []).append(c)
    return sup


# ---------------------------------------------------------------------------
def stacking_candidates(res, reach=STACK_MAX + 0.01):
    """For every residue pair with centroid distance < reach: all decision
    quantities with margins."""
    cent, idx = [], []
    for k, r in enumerate(res):
        names = BASE_ATOMS.get(r.letter, [])
        pts = [r.atoms[n] for n in names if n in r.atoms]
        if pts:
            cent.append(np.mean(np.array(pts), axis=0))
            idx.append(k)
    out = []
    if len(cent) < 2:
        return out
    C = np.array(cent)
    n = len(C)
    B = max(16, min(2000, 4_000_000 // max(1, n)))
    for s in range(0, n, B):
        D = np.sqrt(((C[s : s + B, None, :] - C[None, :, :]) ** 2).sum(-1))
        ii, jj = np.nonzero(D < reach)
        for a, b in zip(ii + s, jj):
            if a >= b:
                continue
            ri, rj = res[idx[a]], res[idx[b]]
            ni, nj = ri.normal, rj.normal
            d = float(D[a - s, b])
            ent = {"i": idx[a], "j": idx[b], "dist": d, "normals": ni is not None and nj is not None}
            if ent["normals"] and d > 0:
                dot = float(np.dot(ni, nj))
                ang_n = math.degrees(math.acos(max(-1.0, min(1.0, abs(dot)))))
                v = C[a] - C[b]
                # directed angles, both directions
                def ang(u, w):
                    return _angle_deg(u, w)

                fwd = min(ang(v, ni), ang(v, nj))
                bwd = min(ang(-v, ni), ang(-v, nj))
                ent.update(dot=dot, ang_normals=ang_n, off_ij=fwd, off_ji=bwd, off_undirected=min(fwd, bwd))
            out.append(ent)
    return out


# ---------------------------------------------------------------------------
def bph_class(donor_res, donor_name, acceptor_xyz):
    """Zirbel class of one donor-atom / acceptor-oxygen contact (frozen copy)
    -> (class | None, margin in degrees for torsion-dependent choices)."""
    L = donor_res.letter
    A = donor_res.atoms

    def tors(n1, n2):
        if n1 in A and n2 in A:
            t, m = geom.dihedral(A[n1], A[n2], A[donor_name], acceptor_xyz)
            if math.isnan(t) or m < 1e-9:
                return None, 0.0
            deg = math.degrees(t)
            return (-90.0 < deg < 90.0), abs(abs(deg) - 90.0)
        return None, math.inf

    if L == "A":
        if donor_name == "C2":
            return 2, math.inf
        if donor_name == "N6":
            c, m = tors("N1", "C6")
            if c is None:
                return (None, m) if m else ("?", 0.0)
            return (6 if c else 7), m
        if donor_name == "C8":
            return 0, math.inf
    if L == "G":
        if donor_name == "N1":
            return 5, math.inf
        if donor_name == "N2":
            c, m = tors("N3", "C2")
            if c is None:
                return (None, m) if m else ("?", 0.0)
            return (1 if c else 3), m
        if donor_name == "C8":
            return 0, math.inf
    if L == "C":
        if donor_name == "N4":
            c, m = tors("N3", "C4")
            if c is None:
                return (None, m) if m else ("?", 0.0)
            return (6 if c else 7), m
        if donor_name == "C5":
            return 9, math.inf
        if donor_name == "C6":
            return 0, math.inf
    if L == "U":
        return {"N3": 5, "C5": 9, "C6": 0}.get(donor_name), math.inf
    if L == "T":
        return {"N3": 5, "C6": 0, "C7": 9}.get(donor_name), math.inf
    return None, math.inf


def backbone_contacts(res, acceptors, reach=HBOND_MAX + 0.01):
    """{(donor_idx, acceptor_idx): [(donor atom, acceptor atom, dist, class, margin)]}
    for base donor atoms against the given backbone oxygens."""
    dn, downer, dx = [], [], []
    an, aowner, ax = [], [], []
    for k, r in enumerate(res):
        for n in BASE_DONORS.get(r.letter, []):
            if n in r.atoms and n != "O2'":
                dn.append(n)
                downer.append(k)
                dx.append(r.atoms[n])
        for n in acceptors:
            if n in r.atoms:
                an.append(n)
                aowner.append(k)
                ax.append(r.atoms[n])
    out = {}
    if not dx or not ax:
        return out
    DX, AX = np.array(dx), np.array(ax)
    B = max(16, min(2000, 4_000_000 // max(1, len(AX))))
    for s in range(0, len(DX), B):
        D = np.sqrt(((DX[s : s + B, None, :] - AX[None, :, :]) ** 2).sum(-1))
        ii, jj = np.nonzero(D < reach)
        for a, b in zip(ii + s, jj):
            ri, rj = res[downer[a]], res[aowner[b]]
            if downer[a] == aowner[b]:
                continue
            if (ri.label is not None and ri.label == rj.label) or (ri.auth is not None and ri.auth == rj.auth):
                continue
            cls, m = bph_class(ri, dn[a], AX[b])
            d = float(D[a - s, b])
            out.setdefault((downer[a], aowner[b]), []).append((dn[a], an[b], d, cls, min(m, abs(d - HBOND_MAX))))
    return out
