"""80-column PDB record grammar and record-sequence automaton (independent)."""
import re

ATOM_RE = re.compile(
    r"^(ATOM  |HETATM)([ \d]{5}) (.{4})(.)(.{3}) (.)([ \-\d]{4})(.)   "
    r"([ \-\d.]{8})([ \-\d.]{8})([ \-\d.]{8})([ \-\d.]{6})([ \-\d.]{6}) {10}(.{2})(.{2})$"
)
TER_RE = re.compile(r"^TER   ([ \d]{5})      (.{3}) (.)([ \-\d]{4})(.) {53}$")
MODEL_RE = re.compile(r"^MODEL  {4}([ \d]{4}) *$")
RJ_INT = re.compile(r"^ *-?\d+$")
F83 = re.compile(r"^ *-?\d+\.\d{3}$")
F62 = re.compile(r"^ *-?\d+\.\d{2}$")


def parse_atom(line):
    """-> dict of fields or (None, reason)."""
    if len(line) != 80:
        return None, f"length {len(line)} != 80"
    m = ATOM_RE.match(line)
    if not m:
        return None, "does not match the ATOM/HETATM column grammar"
    rec, serial, name, alt, resn, chain, resseq, icode, x, y, z, occ, b, el, ch = m.groups()
    if not RJ_INT.match(serial) or not RJ_INT.match(resseq):
        return None, "serial/resSeq not a right-justified integer"
    for v in (x, y, z):
        if not F83.match(v):
            return None, f"coordinate field {v!r} is not %8.3f"
    for v in (occ, b):
        if not F62.match(v):
            return None, f"occupancy/B field {v!r} is not %6.2f"
    if el.strip() and el != el.strip().rjust(2):
        return None, "element not right-justified"
    return {
        "rec": rec.strip(), "serial": int(serial), "name": name.strip(), "alt": alt.strip() or None, "resname": resn.strip(), "chain": chain,
        "resseq": int(resseq), "icode": icode.strip() or None, "x": float(x), "y": float(y), "z": float(z), "occ": float(occ), "b": float(b),
        "element": el.strip() or None, "charge": ch.strip() or None,
    }, None


def check_document(text):
    """Record automaton: (MODEL (ATOM+ TER)+ ENDMDL)+ END with TER after every
    chain.  Returns list of problems (strings); each carries a short kind tag."""
    problems = []
    lines = text.split("\n")
    if lines and lines[-1] == "":
        lines = lines[:-1]
    state = "start"
    chain = None
    last_atom = None
    seen_models = []
    for ln, line in enumerate(lines, 1):
        tag = line[:6].strip()
        if tag == "MODEL":
            m = MODEL_RE.match(line)
            if not m:
                problems.append(("layout", f"line {ln}: malformed MODEL record {line!r}"))
            if state == "atoms":
                problems.append(("no-ter-before-model-end", f"line {ln}: MODEL while chain {chain!r} is still open (no TER/ENDMDL)"))
            if state in ("atoms", "ter") and seen_models:
                problems.append(("no-endmdl", f"line {ln}: MODEL without ENDMDL for the previous model"))
            state = "model"
            chain = None
            seen_models.append(line[10:14].strip())
        elif tag in ("ATOM", "HETATM"):
            f, why = parse_atom(line)
            if f is None:
                problems.append(("layout", f"line {ln}: {why}: {line!r}"))
                continue
            if state == "start":
                problems.append(("no-model", f"line {ln}: atom record outside MODEL/ENDMDL"))
            if state == "end":
                problems.append(("after-end", f"line {ln}: atom after END"))
            if state == "atoms" and f["chain"] != chain:
                problems.append(("no-ter-between-chains", f"line {ln}: chain changes {chain!r}->{f['chain']!r} without TER"))
            chain = f["chain"]
            last_atom = f
            state = "atoms" if state != "start" else "start"
            if state == "start":
                state = "atoms-nomodel"
        elif tag == "TER":
            m = TER_RE.match(line)
            if len(line) != 80 or not m:
                problems.append(("layout", f"line {ln}: malformed TER record {line!r}"))
            elif last_atom is not None:
                if m.group(3) != last_atom["chain"] or int(m.group(4)) != last_atom["resseq"] or m.group(2).strip() != last_atom["resname"] or int(m.group(1)) != last_atom["serial"] + 1:
                    problems.append(("ter-fields", f"line {ln}: TER fields do not describe the last residue of the chain: {line!r}"))
            if state not in ("atoms", "atoms-nomodel"):
                problems.append(("stray-ter", f"line {ln}: TER without a preceding chain"))
            state = "ter"
            chain = None
        elif tag == "ENDMDL":
            if state == "atoms":
                problems.append(("no-ter-before-model-end", f"line {ln}: ENDMDL while chain {chain!r} has no TER"))
            elif state not in ("ter",):
                problems.append(("stray-endmdl", f"line {ln}: ENDMDL in state {state}"))
            state = "endmdl"
            chain = None
        elif tag == "END":
            if state == "atoms":
                problems.append(("no-ter-before-model-end", f"line {ln}: END while chain {chain!r} has no TER"))
            if state in ("ter", "atoms") and seen_models:
                problems.append(("no-endmdl", f"line {ln}: END without ENDMDL"))
            state = "end"
        elif line.strip() == "":
            continue
        else:
            problems.append(("unknown-record", f"line {ln}: unexpected record {line[:20]!r}"))
    if state != "end":
        problems.append(("no-end", "document does not finish with END"))
    return problems
