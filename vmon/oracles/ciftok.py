"""Minimal CIF tokenizer/reader, independent of the mmcif package.

parse(text) -> list of blocks; block = {"name": str, "cats": [(category, items, rows)]}
with values as strings (quotes removed; '?' and '.' kept as written)."""
import re


class CifError(Exception):
    pass


def tokens(text):
    """Yield (kind, value): kind in {'word','quoted','text'}."""
    lines = text.split("\n")
    i = 0
    n = len(lines)
    while i < n:
        line = lines[i]
        if line.startswith(";"):
            buf = [line[1:]]
            i += 1
            while i < n and not lines[i].startswith(";"):
                buf.append(lines[i])
                i += 1
            if i >= n:
                raise CifError("unterminated text field")
            rest = lines[i][1:]
            yield ("text", "\n".join(buf))
            i += 1
            if rest.strip():
                yield from _line_tokens(rest)
            continue
        yield from _line_tokens(line)
        i += 1


def _line_tokens(line):
    j = 0
    L = len(line)
    while j < L:
        c = line[j]
        if c in " \t\r":
            j += 1
            continue
        if c == "#":
            return
        if c in "'\"":
            k = j + 1
            while True:
                k = line.find(c, k)
                if k < 0:
                    raise CifError("unterminated quote: " + line)
                if k + 1 >= L or line[k + 1] in " \t\r":
                    break
                k += 1
            yield ("quoted", line[j + 1 : k])
            j = k + 1
            continue
        k = j
        while k < L and line[k] not in " \t\r":
            k += 1
        yield ("word", line[j:k])
        j = k


def parse(text):
    blocks = []
    cur = None
    toks = list(tokens(text))
    i = 0

    def add_kv(tag, value):
        cat, _, item = tag[1:].partition(".")
        for c in cur["cats"]:
            if c[0] == cat and c[3] == "kv":
                c[1].append(item)
                c[2][0].append(value)
                return
        cur["cats"].append([cat, [item], [[value]], "kv"])

    while i < len(toks):
        kind, v = toks[i]
        if kind == "word" and v.lower().startswith("data_"):
            cur = {"name": v[5:], "cats": []}
            blocks.append(cur)
            i += 1
            continue
        if cur is None:
            raise CifError("content before data_ block")
        if kind == "word" and v.lower() == "loop_":
            i += 1
            tags = []
            while i < len(toks) and toks[i][0] == "word" and toks[i][1].startswith("_"):
                tags.append(toks[i][1])
                i += 1
            vals = []
            while i < len(toks):
                k2, v2 = toks[i]
                if k2 == "word" and (v2.startswith("_") or v2.lower() == "loop_" or v2.lower().startswith("data_")):
                    break
                vals.append(v2)
                i += 1
            if not tags or len(vals) % len(tags):
                raise CifError(f"loop with {len(tags)} tags and {len(vals)} values")
            cat = tags[0][1:].partition(".")[0]
            items = [t[1:].partition(".")[2] for t in tags]
            rows = [vals[r : r + len(tags)] for r in range(0, len(vals), len(tags))]
            cur["cats"].append([cat, items, rows, "loop"])
            continue
        if kind == "word" and v.startswith("_"):
            if i + 1 >= len(toks):
                raise CifError("tag without value")
            add_kv(v, toks[i + 1][1])
            i += 2
            continue
        raise CifError(f"unexpected token {v!r}")
    return blocks


def frame(text):
    """First block as {"order": [cat...], "cats": {cat: (items, rows)}}."""
    b = parse(text)
    if not b:
        return {"order": [], "cats": {}}
    cats = {}
    order = []
    for cat, items, rows, _ in b[0]["cats"]:
        order.append(cat)
        cats[cat] = (list(items), [list(r) for r in rows])
    return {"order": order, "cats": cats}


def frames(text):
    """Every block: [{"name", "order", "cats"}...] (frame() is frames()[0] without the name)."""
    out = []
    for b in parse(text):
        cats = {}
        order = []
        for cat, items, rows, _ in b["cats"]:
            order.append(cat)
            cats[cat] = (list(items), [list(r) for r in rows])
        out.append({"name": b["name"], "order": order, "cats": cats})
    return out


_PLAIN = re.compile(r"^[A-Za-z0-9+\-.,:/()\[\]=*%<>@!&~^|`{}\\?][^\s]*$")


def quote(v):
    """Emit one value."""
    if v == "":
        return "''"
    if "\n" in v:
        return "\n;" + v + "\n;\n"
    low = v.lower()
    special = v[0] in "_#$'\";[]" or low.startswith("data_") or low.startswith("save_") or low in ("loop_", "stop_", "global_")
    if not special and not any(c in v for c in " \t"):
        return v
    if "'" not in v:
        return "'" + v + "'"
    if '"' not in v:
        return '"' + v + '"'
    return "\n;" + v + "\n;\n"


def emit_blocks(blocks, layout=0):
    """blocks: list of (name, cats)."""
    return "".join(emit(n, c, layout) for n, c in blocks)


def emit(name, cats, layout=0):
    """cats: list of (category, items, rows, kind).  layout: 0 = data names in column 1 (as the PDB writes them);
    1 / 2 = data names indented by blanks / a tab; 3 = the names of a loop on the loop_ line (CIF is free-format:
    tokens are separated by any white space)."""
    ind = {0: "", 1: "  ", 2: "\t", 3: " "}[layout]
    out = [f"data_{name}", "#"]
    for cat, items, rows, kind in cats:
        if kind == "kv":
            for it, v in zip(items, rows[0]):
                q = quote(v)
                out.append(f"{ind}_{cat}.{it}   {q}" if not q.startswith("\n") else f"{ind}_{cat}.{it}{q.rstrip(chr(10))}")
        elif layout == 3:
            out.append("loop_ " + " ".join(f"_{cat}.{it}" for it in items))
        else:
            out.append("loop_")
            for it in items:
                out.append(f"{ind}_{cat}.{it}")
        if kind != "kv":
            for r in rows:
                line = ""
                for v in r:
                    q = quote(v)
                    if q.startswith("\n"):
                        line = line.rstrip() + q
                    else:
                        line += q + " "
                out.append(line.rstrip(" "))
        out.append("#")
    return "\n".join(out) + "\n"
