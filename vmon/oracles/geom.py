"""Independent geometry oracles (numpy elementwise only)."""
import math

import numpy as np


def dihedral(p1, p2, p3, p4):
    """IUPAC dihedral (clockwise positive looking from p2 to p3), radians in
    (-pi, pi]; returns (angle, sin1*sin2 margin) where the margin is the
    product of the sines of the two bond angles (0 = degenerate)."""
    b1 = np.asarray(p2, float) - np.asarray(p1, float)
    b2 = np.asarray(p3, float) - np.asarray(p2, float)
    b3 = np.asarray(p4, float) - np.asarray(p3, float)
    n1 = np.cross(b1, b2)
    n2 = np.cross(b2, b3)
    l2 = math.sqrt(float(np.dot(b2, b2)))
    d = float(np.dot(b1, b1)) ** 0.5 * l2 * l2 * float(np.dot(b3, b3)) ** 0.5
    if d == 0.0:
        return math.nan, 0.0
    margin = float(np.linalg.norm(n1) * np.linalg.norm(n2)) / d
    y = l2 * float(np.dot(b1, n2))
    x = float(np.dot(n1, n2))
    return math.atan2(y, x), margin


def bond_sines(p1, p2, p3, p4):
    """Sines of the two bond angles p1-p2-p3 and p2-p3-p4 (0 = collinear: the dihedral is undefined there)."""
    b1 = np.asarray(p2, float) - np.asarray(p1, float)
    b2 = np.asarray(p3, float) - np.asarray(p2, float)
    b3 = np.asarray(p4, float) - np.asarray(p3, float)
    l1, l2, l3 = (float(np.linalg.norm(b)) for b in (b1, b2, b3))
    if l1 == 0.0 or l2 == 0.0 or l3 == 0.0:
        return 0.0, 0.0
    return float(np.linalg.norm(np.cross(b1, b2))) / (l1 * l2), float(np.linalg.norm(np.cross(b2, b3))) / (l2 * l3)


def build_dihedral(phi, l1, l2, l3, th1, th2):
    """Four points with prescribed IUPAC dihedral phi.  p2 at the origin,
    p3 on +x; viewer looks along +x with +y up, so +z is to the right and a
    clockwise (positive) rotation takes +y towards +z."""
    p2 = np.zeros(3)
    p3 = np.array([l2, 0.0, 0.0])
    p1 = p2 + l1 * np.array([math.cos(th1), math.sin(th1), 0.0])
    p4 = p3 + l3 * np.array([-math.cos(th2), math.sin(th2) * math.cos(phi), math.sin(th2) * math.sin(phi)])
    return p1, p2, p3, p4


def random_rotation(rng):
    """Uniform random proper rotation (from a random unit quaternion)."""
    while True:
        q = np.array([rng.gauss(0, 1) for _ in range(4)])
        n = np.linalg.norm(q)
        if n > 1e-6:
            break
    w, x, y, z = q / n
    return np.array(
        [
            [1 - 2 * (y * y + z * z), 2 * (x * y - z * w), 2 * (x * z + y * w)],
            [2 * (x * y + z * w), 1 - 2 * (x * x + z * z), 2 * (y * z - x * w)],
            [2 * (x * z - y * w), 2 * (y * z + x * w), 1 - 2 * (x * x + y * y)],
        ]
    )


def axis_permutations():
    """The 24 proper signed axis permutations."""
    import itertools

    out = []
    for perm in itertools.permutations(range(3)):
        for signs in itertools.product([1, -1], repeat=3):
            m = np.zeros((3, 3))
            for r, (c, s) in enumerate(zip(perm, signs)):
                m[r, c] = s
            if round(np.linalg.det(m)) == 1:
                out.append(m)
    return out


def wrapdiff(a, b):
    d = (a - b) % (2 * math.pi)
    if d > math.pi:
        d -= 2 * math.pi
    return abs(d)
