"""Monitors for annotator.find_pairs / find_stackings shared by C03, C04, C11."""
import math
import traceback

from vmon.oracles import g3d

EPS = g3d.EPS
_cur = {"rec": None, "groups": set(), "ctx": None}


def lwval(x):
    return getattr(x, "value", x)


def _index(snap):
    by = {}
    for k, r in enumerate(snap):
        by.setdefault(r.key, []).append(k)
    return by


def _resolve(by, res2d):
    ks = by.get(g3d.key_of_residue(res2d))
    return ks[0] if ks else None


def _order3(r):
    return (r.chain, r.number, r.icode or " ")


def _crash(exc):
    tb = traceback.extract_tb(exc.__traceback__)
    return {"exception": repr(exc)[:300], "tb": [f"{f.filename.split('/')[-1]}:{f.lineno}:{f.name}" for f in tb[-4:]], "ctx": _cur["ctx"]}


def pre_structure(args, kwargs):
    structure = args[0]
    model = args[1] if len(args) > 1 else kwargs.get("model")
    return g3d.snapshot(structure, model)


# ---------------------------------------------------------------------------
def post_find_pairs(snap, result, exc, args, kwargs):
    rec = _cur["rec"]
    groups = _cur["groups"]
    if exc is not None:
        rec.violation("pairs.no-crash", _crash(exc), mechanism=f"crash:{type(exc).__name__}")
        return
    pairs, bphs, brs = result
    by = _index(snap)
    if "C03" in groups:
        judge_c03(rec, snap, by, pairs)
    if "C11" in groups:
        judge_c11_pairs(rec, snap, by, pairs, bphs, brs)
    _cur["last_pairs"] = (len(pairs), len(bphs), len(brs))


def judge_c03(rec, snap, by, pairs):
    contacts = g3d.hbond_contacts(snap, include_o2p=True)
    sup = g3d.edge_support(snap, contacts)
    reported = set()
    occupied = {}
    dup_edge = None
    for p in pairs:
        i, j = _resolve(by, p.nt1), _resolve(by, p.nt2)
        lw = lwval(p.lw)
        det = lambda extra=None: {"pair": [repr(p.nt1), repr(p.nt2), lw], "info": extra, "ctx": _cur["ctx"]}
        if i is None or j is None:
            rec.violation("pairs.participants-resolve", det(), mechanism=None)
            continue
        # S1
        ri, rj = snap[i], snap[j]
        rec.check("pairs.distinct-residues", i != j and ri.key != rj.key, det)
        reported.add((i, j, lw))
        for (k, e) in ((i, lw[1]), (j, lw[2])):
            if (k, e) in occupied:
                dup_edge = (snap[k].ident(), e, occupied[(k, e)], [repr(p.nt1), repr(p.nt2), lw])
            occupied[(k, e)] = [repr(p.nt1), repr(p.nt2), lw]
        # S2: two distinct contacts on the named edges
        # support is oriented (lower residue first); find whichever orientation exists
        cs = sup.get((i, j, lw[1], lw[2]), []) if (ri.order, i) <= (rj.order, j) else []
        cs = cs or [c for c in sup.get((j, i, lw[2], lw[1]), [])]
        sure = [c for c in cs if c.inside and c.margin >= EPS]
        maybe = [c for c in cs if c.margin < EPS]
        dsure = {(c.i, c.ai, c.j, c.aj) for c in sure}
        dmaybe = {(c.i, c.ai, c.j, c.aj) for c in maybe}
        if len(dsure) >= 2:
            rec.ok("pairs.two-distinct-contacts")
        elif len(dsure | dmaybe) >= 2:
            rec.undecided("pairs.two-distinct-contacts", "threshold-margin")
        else:
            mech = None
            inside = [c for c in cs if c.inside]
            if len(inside) == 1 and inside[0].o2p:
                mech = "single-O2'-contact-counted-twice"
            rec.violation("pairs.two-distinct-contacts",
                          det({"supporting-contacts": [c.as_dict(snap) for c in cs if c.inside][:6], "near-misses": [c.as_dict(snap) for c in cs if not c.inside][:4],
                               "res_i": ri.ident(), "res_j": rj.ident()}), mechanism=mech)
        # S3 cis/trans
        ct, m = g3d.cis_trans(ri, rj)
        if ct is None or ct == "?":
            rec.violation("pairs.cis-trans", det("torsion atoms missing although a pair was reported"), mechanism=None) if ct is None else rec.undecided("pairs.cis-trans", "degenerate")
        elif m < EPS:
            rec.undecided("pairs.cis-trans", "threshold-margin")
        else:
            rec.check("pairs.cis-trans", lw[0] == ct, lambda: det({"torsion-class": ct, "margin": m}))
    rec.check("pairs.edge-exclusive", dup_edge is None, lambda: {"edge-used-twice": dup_edge, "ctx": _cur["ctx"]})
    # M: maximality over base-to-base contacts (O2' excluded)
    bb = {}
    for key, cs in sup.items():
        for c in cs:
            if c.o2p:
                continue
            bb.setdefault(key, []).append(c)
    for (i, j, ei, ej), cs in bb.items():
        sure = {(c.i, c.ai, c.j, c.aj) for c in cs if c.inside and c.margin >= EPS}
        if len(sure) < 2:
            continue
        ct, m = g3d.cis_trans(snap[i], snap[j])
        if ct is None:
            rec.skip("pairs.maximal", "no-torsion-atoms")
            continue
        if ct == "?" or m < EPS:
            rec.undecided("pairs.maximal", "cis-trans-margin")
            continue
        lw = ct + ei + ej
        lwr = ct + ej + ei
        ok = (i, j, lw) in reported or (j, i, lwr) in reported or (i, ei) in occupied or (j, ej) in occupied
        rec.check("pairs.maximal", ok, lambda: {"unreported": [snap[i].ident(), snap[j].ident(), lw], "contacts": [c.as_dict(snap) for c in cs if c.inside][:4],
                                                 "edge_i_occupied_by": occupied.get((i, ei)), "edge_j_occupied_by": occupied.get((j, ej)), "ctx": _cur["ctx"]})


def judge_c11_pairs(rec, snap, by, pairs, bphs, brs):
    ctx = _cur["ctx"]
    # base pairs ----------------------------------------------------------
    seen = set()
    prev = None
    for p in pairs:
        lw = lwval(p.lw)
        ident = (g3d.key_of_residue(p.nt1), g3d.key_of_residue(p.nt2), lw)
        det = lambda extra=None: {"pair": [repr(p.nt1), repr(p.nt2), lw, lwval(p.saenger)], "info": extra, "ctx": ctx}
        rec.check("lists.no-duplicate-pair", ident not in seen and (ident[1], ident[0], lw[0] + lw[2] + lw[1]) not in seen, det)
        seen.add(ident)
        i, j = _resolve(by, p.nt1), _resolve(by, p.nt2)
        if not rec.check("lists.participants-in-model", i is not None and j is not None, det):
            continue
        ri, rj = snap[i], snap[j]
        rec.check("lists.no-self-pair", ident[0] != ident[1], det)
        rec.check("lists.pair-lower-first", _order3(ri) < _order3(rj), det)
        cur = (ri.order, rj.order)
        if prev is not None:
            rec.check("lists.pairs-sorted", prev <= cur, lambda: det({"previous": prev, "current": cur}))
        prev = cur
        want = g3d.SAENGER.get((ri.letter + rj.letter, lw))
        got = lwval(p.saenger) if p.saenger is not None else None
        rec.check("lists.saenger-table", got == want, lambda: det({"want": want, "letters": ri.letter + rj.letter}))
        wantr = g3d.SAENGER.get((rj.letter + ri.letter, lw[0] + lw[2] + lw[1]))
        rec.check("lists.saenger-reverse-same", wantr == want, lambda: det({"forward": want, "reverse": wantr}))
    # BPh / BR ------------------------------------------------------------
    for kind, lst, acceptors, attr in (("bph", bphs, g3d.PHOSPHATE_ACCEPTORS, "bph"), ("br", brs, g3d.RIBOSE_ACCEPTORS, "br")):
        # very large structures: the contacts of a reported pair are evaluated for that pair of residues only (what
        # is judged per reported interaction is the same; nothing here needs the contacts of unreported pairs)
        big = len(snap) > 3000
        cont = {} if big else g3d.backbone_contacts(snap, acceptors)

        def contacts_of(a, b, cont=cont, big=big, acceptors=acceptors):
            if not big:
                return cont.get((a, b), [])
            return g3d.backbone_contacts([snap[a], snap[b]], acceptors).get((0, 1), [])

        per_pair = {}
        seen = set()
        for x in lst:
            cls = lwval(getattr(x, attr))
            num = int(cls[0]) if cls else None
            ident = (g3d.key_of_residue(x.nt1), g3d.key_of_residue(x.nt2), cls)
            det = lambda extra=None: {"kind": kind, "interaction": [repr(x.nt1), repr(x.nt2), cls], "info": extra, "ctx": ctx}
            rec.check(f"lists.no-duplicate-{kind}", ident not in seen, det)
            seen.add(ident)
            i, j = _resolve(by, x.nt1), _resolve(by, x.nt2)
            if not rec.check("lists.participants-in-model", i is not None and j is not None, det):
                continue
            rec.check(f"lists.no-self-{kind}", ident[0] != ident[1], det)
            per_pair.setdefault((ident[0], ident[1]), []).append(cls)
            # several Residue3D objects may carry one identity (a nucleotide listed in two parts): the contact may
            # be between any of the objects of the two residues
            k1, k2 = by.get(g3d.key_of_residue(x.nt1), [i]), by.get(g3d.key_of_residue(x.nt2), [j])
            cands = [c for a in k1 for b in k2 if a != b for c in contacts_of(a, b)]
            sure = [c for c in cands if c[2] <= g3d.HBOND_MAX and c[4] >= EPS and c[3] not in (None, "?")]
            fuzzy = [c for c in cands if c[4] < EPS or c[3] == "?"]
            classes = {c[3] for c in sure}
            allowed = set(classes)
            if {3, 5} <= classes:
                allowed.add(4)
            if {7, 9} <= classes:
                allowed.add(8)
            if num in allowed:
                rec.ok(f"lists.{kind}-donor-contact-and-class")
            elif fuzzy:
                rec.undecided(f"lists.{kind}-donor-contact-and-class", "threshold-margin")
            else:
                rec.violation(f"lists.{kind}-donor-contact-and-class",
                              det({"contacts-within-4A": [(c[0], c[1], round(c[2], 4), c[3]) for c in cands if c[2] <= g3d.HBOND_MAX][:6], "allowed-classes": sorted(allowed)}), mechanism=None)
        multi = {k: v for k, v in per_pair.items() if len(v) > 1}
        rec.check(f"lists.{kind}-one-class-per-pair", not multi, lambda: {"kind": kind, "multi": str(multi)[:300], "ctx": ctx})


# ---------------------------------------------------------------------------
def post_find_stackings(snap, result, exc, args, kwargs):
    rec = _cur["rec"]
    groups = _cur["groups"]
    by = _index(snap)
    if exc is not None:
        mech = f"crash:{type(exc).__name__}"
        if isinstance(exc, ValueError) and "math domain error" in str(exc):
            mech = "acos-domain-error"
        rec.violation("stackings.no-crash", _crash(exc), mechanism=mech)
        return
    if "C04" in groups:
        judge_c04(rec, snap, by, result)
    if "C11" in groups:
        judge_c11_stackings(rec, snap, by, result)
    _cur["last_stackings"] = len(result)


def judge_c04(rec, snap, by, stackings):
    ctx = _cur["ctx"]
    cands = g3d.stacking_candidates(snap)
    cmap = {}
    for c in cands:
        cmap[(c["i"], c["j"])] = c
    reported = {}
    _prev_key = [None]
    for s in stackings:
        i, j = _resolve(by, s.nt1), _resolve(by, s.nt2)
        topo = lwval(s.topology)
        det = lambda extra=None: {"stacking": [repr(s.nt1), repr(s.nt2), topo], "info": extra, "ctx": ctx}
        if i is None or j is None:
            rec.violation("stackings.participants-resolve", det(), mechanism=None)
            continue
        key = (min(i, j), max(i, j))
        rec.check("stackings.once", key not in reported, det)
        reported[key] = topo
        rec.check("stackings.lower-first", _order3(snap[i]) < _order3(snap[j]), det)
        # "ordered by chain and number": the list itself runs in that order as well
        cur_key = (_order3(snap[i]), _order3(snap[j]))
        if _prev_key[0] is not None:
            rec.check("stackings.list-in-chain-number-order", _prev_key[0] <= cur_key, lambda: det({"previous": _prev_key[0], "current": cur_key}))
        _prev_key[0] = cur_key
        c = cmap.get(key)
        if c is None or not c["normals"] or "dot" not in c:
            rec.violation("stackings.sound", det({"reason": "no candidate within 6.01 A / normals undefined", "cand": c}), mechanism=None)
            continue
        m = min(abs(c["dist"] - g3d.STACK_MAX), abs(c["ang_normals"] - g3d.STACK_NORMALS), abs(c["off_undirected"] - g3d.STACK_OFFSET))
        good = c["dist"] <= g3d.STACK_MAX and c["ang_normals"] <= g3d.STACK_NORMALS and c["off_undirected"] <= g3d.STACK_OFFSET
        if m < EPS:
            rec.undecided("stackings.sound", "threshold-margin")
        else:
            rec.check("stackings.sound", good, lambda: det({k: c[k] for k in ("dist", "ang_normals", "off_ij", "off_ji")}))
        if abs(c["dot"]) < EPS:
            rec.undecided("stackings.label-class", "dot-margin")
        else:
            same = c["dot"] > 0
            rec.check("stackings.label-class", (topo in ("upward", "downward")) == same and topo in ("upward", "downward", "inward", "outward"),
                      lambda: det({"dot": c["dot"]}))
    for key, c in cmap.items():
        if not c["normals"] or "dot" not in c:
            continue
        strong = c["dist"] <= g3d.STACK_MAX and c["ang_normals"] <= g3d.STACK_NORMALS and c["off_ij"] <= g3d.STACK_OFFSET
        weak = c["dist"] <= g3d.STACK_MAX and c["ang_normals"] <= g3d.STACK_NORMALS and c["off_undirected"] <= g3d.STACK_OFFSET
        m = min(abs(c["dist"] - g3d.STACK_MAX), abs(c["ang_normals"] - g3d.STACK_NORMALS), abs(c["off_ij"] - g3d.STACK_OFFSET), abs(c["off_ji"] - g3d.STACK_OFFSET))
        if m < EPS:
            rec.undecided("stackings.complete", "threshold-margin")
            continue
        if strong:
            rec.check("stackings.complete", key in reported,
                      lambda: {"unreported": [snap[key[0]].ident(), snap[key[1]].ident()], "quantities": {k: c[k] for k in ("dist", "ang_normals", "off_ij", "off_ji", "dot")}, "ctx": ctx})
        elif weak:
            rec.undecided("stackings.complete", "ambiguous-direction")


def judge_c11_stackings(rec, snap, by, stackings):
    ctx = _cur["ctx"]
    seen = set()
    prev = None
    for s in stackings:
        topo = lwval(s.topology)
        ident = (g3d.key_of_residue(s.nt1), g3d.key_of_residue(s.nt2))
        det = lambda extra=None: {"stacking": [repr(s.nt1), repr(s.nt2), topo], "info": extra, "ctx": ctx}
        rec.check("lists.no-duplicate-stacking", ident not in seen and (ident[1], ident[0]) not in seen, det)
        seen.add(ident)
        i, j = _resolve(by, s.nt1), _resolve(by, s.nt2)
        if not rec.check("lists.participants-in-model", i is not None and j is not None, det):
            continue
        rec.check("lists.no-self-stacking", ident[0] != ident[1], det)
        rec.check("lists.stacking-lower-first", _order3(snap[i]) < _order3(snap[j]), det)
        cur = (snap[i].order, snap[j].order)
        if prev is not None:
            rec.check("lists.stackings-sorted", prev <= cur, lambda: det({"previous": prev, "current": cur}))
        prev = cur


def attach(rec, reach, groups):
    from rnapolis import annotator
    from vmon import core

    _cur["rec"] = rec
    _cur["groups"] = set(groups)
    core.wrap(annotator, "find_pairs", rec, post=post_find_pairs, pre=pre_structure, label="annotator.find_pairs")
    core.wrap(annotator, "find_stackings", rec, post=post_find_stackings, pre=pre_structure, label="annotator.find_stackings")
    for n in ("find_pairs", "find_stackings", "detect_cis_trans", "detect_saenger", "detect_bph_br_classification", "merge_and_clean_bph_br", "angle_between_vectors"):
        reach.add(getattr(annotator, n), n)
