"""One shard of one property's workload, in its own interpreter.

usage: python -m vmon.worker PROP SHARD NSHARDS SEED TIER OUT [REPLAY_FILE]
"""
import faulthandler
import importlib
import json
import os
import sys
import time
import traceback

faulthandler.enable()


def main():
    prop, shard, nshards, seed, tier, out = sys.argv[1:7]
    replay = sys.argv[7] if len(sys.argv) > 7 else None
    shard, nshards, seed = int(shard), int(nshards), int(seed)
    os.environ["VERIF_TIER_EFFECTIVE"] = tier
    from vmon import core

    core.setup_path()
    mod = importlib.import_module(f"vmon.props.{prop.lower()}")
    rec = core.Rec(prop)
    reach = core.Reach()
    t0 = time.time()
    status = "ok"
    err = None
    try:
        mod.setup(rec, reach)
        core.SolverWatch.install()
        reach.start()
        if replay:
            case = json.load(open(replay))
            case = case.get("case", case)
            rec.begin(case)
            mod.run_case(case, rec)
            rec.end()
        else:
            budget = getattr(mod, "BUDGET_S", {}).get(tier)
            quick_ones = []  # (hash, case) of cases that took little time: candidates for a second run at the end
            for case in mod.cases(shard, nshards, seed, tier):
                rec.begin(case)
                try:
                    before = core.SolverWatch.unexpected
                    t_case = time.time()
                    mod.run_case(case, rec)
                    if time.time() - t_case < 1.0:
                        quick_ones.append((core.chash(case), case))
                    if rec.case_violated and core.SolverWatch.unexpected > before:
                        # the MILP back-end failed during this case although nothing injected a fault: run the case
                        # again; what the second run records is what counts
                        rec.rollback()
                        rec.begin(case, rerun=True)
                        rec.count("note:case-run-again-after-a-solver-failure-nobody-injected")
                        mod.run_case(case, rec)
                finally:
                    rec.end()
                if budget and time.time() - t0 > budget:
                    rec.extra["budget_stop"] = True
                    break
            # the same inputs once more, after everything else this process has handled: whatever the process
            # remembers by then (memo tables, shared defaults, objects edited in place) is in play, and every
            # execution is judged by the same monitors as the first time
            if not rec.extra.get("budget_stop") and not getattr(mod, "NO_SECOND_RUNS", False):
                for _, case in sorted(quick_ones, key=lambda x: x[0])[: (12 if tier == "quick" else 60)]:
                    rec.begin(case)
                    try:
                        rec.count("note:cases-run-again-at-the-end-of-the-process")
                        mod.run_case(case, rec)
                    finally:
                        rec.end()
        if hasattr(mod, "finish"):
            mod.finish(rec)
    except Exception:
        status = "harness-error"
        err = traceback.format_exc()
    finally:
        reach.stop()
    res = rec.dump()
    res.update(
        status=status,
        error=err,
        shard=shard,
        wall_s=time.time() - t0,
        reach=reach.report(),
        monitor_faults=core.Attached.faults[:5],
        n_monitor_faults=len(core.Attached.faults),
    )
    with open(out, "w") as f:
        json.dump(res, f, default=str)


if __name__ == "__main__":
    main()
