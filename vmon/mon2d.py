"""Shared monitor pieces for the secondary-structure properties."""
from vmon.oracles import o2d


def snapshot(bpseq):
    """Plain-data copy of a BpSeq's entries; reads `entries` only."""
    return [(e.index_, e.sequence, e.pair) for e in bpseq.entries]


def domain(snap):
    """Valid BPSEQ: numbered 1..N, symmetric, no self pair.  Returns
    (ok, pairs) with pairs a sorted list of (i<j)."""
    n = len(snap)
    pm = {}
    for k, (i, c, j) in enumerate(snap, 1):
        if i != k or not isinstance(j, int) or j < 0 or j > n or j == i:
            return False, None
        if j:
            pm[i] = j
    for i, j in pm.items():
        if pm.get(j) != i:
            return False, None
    return True, sorted((i, j) for i, j in pm.items() if i < j)


def facts(snap):
    ok, pairs = domain(snap)
    if not ok:
        return None
    st = o2d.stems(pairs)
    reg = o2d.regions(st)
    g = o2d.conflict_graph(reg)
    return {
        "n": len(snap),
        "seq": "".join(c for _, c, _ in snap),
        "pairs": pairs,
        "stems": st,
        "reg": reg,
        "g": g,
        "knotted": any(g.values()),
    }


def levels_ok(f):
    """<= 30 bracket levels for FCFS and for the degree bound."""
    fl = o2d.fcfs_levels(f["reg"])
    maxdeg = max((len(v) for v in f["g"].values()), default=0)
    return max(fl, default=0) < 30 and maxdeg + 1 <= 30


def judge_lossless(rec, prefix, f, db, what):
    """C01 clauses on one produced DotBracket object.  Returns level list per
    stem (or None when not lossless)."""
    seq = getattr(db, "sequence", None)
    st = getattr(db, "structure", None)
    det = lambda msg: {"what": what, "problem": msg, "structure": st, "pairs": f["pairs"], "n": f["n"]}
    if not rec.check(f"{prefix}.sequence", seq == f["seq"], lambda: det(f"sequence {seq!r} != {f['seq']!r}")):
        return None
    if not rec.check(f"{prefix}.length", isinstance(st, str) and len(st) == f["n"], lambda: det("length")):
        return None
    if not rec.check(f"{prefix}.alphabet", set(st) <= o2d.ALPHABET, lambda: det("foreign character")):
        return None
    dec, why = o2d.decode(st)
    if not rec.check(f"{prefix}.balanced", dec is not None, lambda: det(why)):
        return None
    want = set(map(tuple, f["pairs"]))
    got = set(dec)
    if not rec.check(
        f"{prefix}.pairs",
        got == want,
        lambda: det({"lost": sorted(want - got)[:5], "invented": sorted(got - want)[:5]}),
    ):
        return None
    x = o2d.same_level_crossing(dec)
    if not rec.check(f"{prefix}.no-crossing-on-level", x is None, lambda: det({"crossing": x})):
        return None
    # the library's own decoder must agree with ours on its own output
    lp = getattr(db, "pairs", None)
    if lp is not None:
        mine = sorted((i - 1, j - 1) for i, j in dec)
        rec.check(f"{prefix}.own-decoder", sorted(map(tuple, lp)) == mine, lambda: det({"lib_pairs": sorted(lp)[:8]}))
    lev = []
    for s in f["stems"]:
        ls = {dec[p] for p in s}
        lev.append(min(ls))
        if len(ls) != 1:
            # not demanded by the text: a stem split over levels is still lossless
            rec.count("note:stem-split-over-levels")
    return lev


def crash_detail(exc, f, what):
    import traceback

    tb = traceback.extract_tb(exc.__traceback__)
    tail = [f"{fr.filename.split('/')[-1]}:{fr.lineno}:{fr.name}" for fr in tb[-4:]]
    return {"what": what, "exception": repr(exc)[:300], "tb": tail, "pairs": f["pairs"] if f else None, "n": f["n"] if f else None}


def make_bpseq(n, pairs, seq=None):
    from rnapolis.common import BpSeq, Entry

    pm = {}
    for i, j in pairs:
        pm[i] = j
        pm[j] = i
    seq = seq or "".join("ACGUgcNau?"[i % 10] for i in range(1, n + 1))
    return BpSeq([Entry(i, seq[i - 1], pm.get(i, 0)) for i in range(1, n + 1)])
