#!/usr/bin/env python3
"""Planted-break self test: apply one textual mutation to a scratch copy of the
repository (outside /repo and /verif), run the quick check with VERIF_REPO
pointing at it, expect exit 1 + VIOLATION.  usage:
  selftest/run.py [--only ID[,ID]] [--name substr] [--jobs N] [--tier quick]"""
import argparse
import concurrent.futures as cf
import json
import os
import shutil
import subprocess
import sys
import tempfile

HERE = os.path.dirname(os.path.dirname(os.path.abspath(__file__)))
REPO = os.environ.get("VERIF_REPO", "/repo")


def run_one(m, tier):
    d = tempfile.mkdtemp(prefix="vmon-mut-")
    try:
        shutil.copytree(os.path.join(REPO, "src"), os.path.join(d, "src"))
        os.symlink(os.path.join(REPO, "tests"), os.path.join(d, "tests"))
        path = os.path.join(d, m["file"])
        s = open(path).read()
        if m["old"] not in s:
            return m, "STALE (pattern not found)", ""
        if s.count(m["old"]) > 1 and not m.get("all"):
            s = s.replace(m["old"], m["new"], 1) if m.get("first") else None
            if s is None:
                return m, "AMBIGUOUS pattern", ""
        else:
            s = s.replace(m["old"], m["new"])
        open(path, "w").write(s)
        env = dict(os.environ, VERIF_REPO=d)
        outs = []
        verdict = "SURVIVED"
        for prop in m["props"]:
            p = subprocess.run([os.path.join(HERE, "check"), prop, "--tier", tier, "--no-evidence"], env=env, capture_output=True, text=True, timeout=3600)
            tail = [l for l in p.stdout.splitlines() if l.startswith(("VIOLATION", "INCONCLUSIVE", "  NEW violation", "[" + prop + "] HELD"))]
            outs.append(f"{prop}: rc={p.returncode} " + " | ".join(tail[:3]))
            if p.returncode == 1 and "VIOLATION" in p.stdout:
                verdict = "KILLED"
            elif p.returncode == 2 and verdict != "KILLED":
                verdict = "INCONCLUSIVE"
        return m, verdict, "; ".join(outs)
    finally:
        shutil.rmtree(d, ignore_errors=True)


def main():
    ap = argparse.ArgumentParser()
    ap.add_argument("--only")
    ap.add_argument("--name")
    ap.add_argument("--jobs", type=int, default=2)
    ap.add_argument("--tier", default="quick")
    args = ap.parse_args()
    muts = json.load(open(os.path.join(HERE, "selftest", "mutants.json")))
    muts = [m for m in muts if not m.get("equivalent")]
    if args.only:
        ids = set(args.only.split(","))
        muts = [m for m in muts if ids & set(m["props"])]
    if args.name:
        muts = [m for m in muts if args.name in m["name"]]
    res = []
    with cf.ThreadPoolExecutor(max_workers=args.jobs) as ex:
        for m, verdict, out in ex.map(lambda m: run_one(m, args.tier), muts):
            print(f"{verdict:12s} {m['name']:50s} {out}", flush=True)
            res.append((m["name"], verdict))
    bad = [n for n, v in res if v != "KILLED"]
    print(f"{len(res) - len(bad)}/{len(res)} killed; not killed: {bad}")
    return 1 if bad else 0


if __name__ == "__main__":
    sys.exit(main())
