#!/bin/bash
# rewrites the generated inventory block of DESIGN.md from the current evidence files
cd "$(dirname "$0")/.."
/venv/bin/python - <<'PY'
import subprocess
s=open('DESIGN.md').read()
a,b="<!-- inventory:begin -->","<!-- inventory:end -->"
tab=subprocess.run(['/venv/bin/python','tools/inventory.py'],capture_output=True,text=True).stdout
i,j=s.index(a)+len(a),s.index(b)
open('DESIGN.md','w').write(s[:i]+"\n"+tab+s[j:])
PY
