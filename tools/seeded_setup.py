#!/usr/bin/env python3
"""Prepare a round of independently written changes: one scratch git worktree of /repo per property under
/tmp/wt/cNN (outside /repo and /verif) with a TASK.md that holds ONLY the property text and the rules - nothing
from /verif.  A fresh sub-agent per worktree is then told "read TASK.md in <worktree> and do it".

usage: tools/seeded_setup.py <letter1> <letter2> <flavours.json>
  flavours.json: {"<letter1>": "<what kind of change to write>", "<letter2>": "..."}
Afterwards: tools/seeded_batch.sh <letter1> <letter2>; tools/seeded_status.sh; record first-run misses in
seeded/history.json; tools/seeded_table.py > seeded/TABLE.md; remove the worktrees
(git -C /repo worktree remove --force /tmp/wt/cNN; git -C /repo worktree prune; rm -rf /tmp/wt /tmp/seedlog)."""
import json
import os
import subprocess
import sys

BASE = '''You are working on the open-source Python library rnapolis-py (RNA bioinformatics: PDB/mmCIF parsing and writing, base-pair/stacking annotation from 3D coordinates, BPSEQ/dot-bracket conversion with MILP pseudoknot-order assignment).

Your own scratch git worktree of the repository is at {wt} (detached checkout). Work ONLY inside {wt}. Never read, write or cd into /repo or /verif. There is no network. Do NOT use `git stash` and do NOT kill processes by name (`pkill`, `killall`): other people are working in sibling worktrees on this machine. To flip between the clean and the changed tree use `git diff > file`, `git checkout -- .` and `patch -p1 < file`.

How to run things:
- Python: `cd {wt} && PYTHONPATH={wt}/src /venv/bin/python ...` (the PYTHONPATH makes `import rnapolis` resolve to your worktree; check once with `python -c "import rnapolis,sys;print(rnapolis.__file__)"`).
- Existing test suite: `cd {wt} && PYTHONPATH={wt}/src /venv/bin/python -m pytest -q -p no:cacheprovider --timeout=900 --continue-on-collection-errors` (about 50 s). On the unchanged tree exactly 45 tests pass and 7 fail (those 7 need the network or a missing solver and always fail here). The same 45 must still pass with your change. (The machine is busy: if a test fails once with a hypothesis deadline/timeout message, run the suite again before concluding anything.)

This is a study of how well semantic properties of the library can be checked. The property under study is:

  "{title}: {statement}"

It is anchored in: {files} - but the whole repository is in scope.

Your task: write TWO independent changes to the library source (call them {L1} and {L2}) that each BREAK this property while the code still imports/compiles and the same 45 existing tests still pass. They should look like something a maintainer could plausibly commit - not sabotage with obviously dead or weird code. Crucially, each change must need something SPECIFIC to manifest, so that ordinary use (and the existing tests) does not expose it at once:
- {L1}: {F1}
- {L2}: {F2}
Be creative, make the two changes different in location, and prefer changes whose effect is subtle (a wrong value, one lost/extra item, a changed order) over crashes.

Deliverables, all in the worktree root {wt}/ :
- mutant_{L1}.diff : `git diff` of the change against HEAD (must apply with `patch -p1` on a clean checkout). Touch only files under src/.
- demo_{L1}.py : a small standalone program (run as `PYTHONPATH={wt}/src /venv/bin/python demo_{L1}.py` from the worktree root; it may read files under tests/) that exits 0 on the UNCHANGED library and exits non-zero with the change applied, printing what went wrong. It must check the property's own statement (not an incidental detail), and must not depend on the network.
- meta_{L1}.json : {{"property": "{pid}", "summary": "<what was changed, 1-3 sentences>", "needs": "<what exactly is needed for the break to manifest>", "files": ["src/rnapolis/..."]}}
- the same three files for {L2}.
After saving each diff, restore the tree with `git checkout -- .` so the two diffs are independent and the worktree ends up clean (except for the six new untracked files and TASK.md).

Before you finish, verify for EACH change yourself: (1) demo exits 0 on the clean tree; (2) after `patch -p1 < mutant_X.diff` the demo exits non-zero; (3) the test suite still shows 45 passed (7 failed) with the change applied; (4) `git checkout -- .` afterwards. If a change makes one of the 45 tests fail, rework it. Report briefly what each change does and the verification results.
'''


def main():
    l1, l2, fl = sys.argv[1], sys.argv[2], json.load(open(sys.argv[3]))
    here = os.path.dirname(os.path.dirname(os.path.abspath(__file__)))
    os.makedirs("/tmp/wt", exist_ok=True)
    os.makedirs("/tmp/seedlog", exist_ok=True)
    for line in open(os.path.join(here, "properties.jsonl")):
        d = json.loads(line)
        pid = d["id"]
        wt = f"/tmp/wt/c{pid[1:]}"
        if not os.path.isdir(wt):
            subprocess.run(["git", "-C", "/repo", "worktree", "add", "--detach", wt, "HEAD", "-q"], check=True)
        with open(f"{wt}/TASK.md", "w") as f:
            f.write(BASE.format(wt=wt, title=d["title"], statement=d["statement"], files=", ".join(d["anchors"]["files"]), pid=pid, L1=l1, L2=l2, F1=fl[l1], F2=fl[l2]))
    print("worktrees and TASK.md ready under /tmp/wt")


if __name__ == "__main__":
    main()
