#!/bin/bash
# one line per processed change in /tmp/seedlog: ok | MISSED | UNCONFIRMED
for f in /tmp/seedlog/*.log; do /venv/bin/python - "$f" <<'PY'
import sys,json
f=sys.argv[1]
txt=open(f).read().strip().splitlines()
if not txt: print(f,'(running)'); sys.exit()
try:
    d=json.loads(txt[0]); print(d['id'],'ok' if d['confirmed'] and d['caught_by'] else ('UNCONFIRMED' if not d['confirmed'] else 'MISSED'), d.get('suite_with_change'), d['caught_by'])
except Exception as e: print(f,'ERR',txt[-1][:200])
PY
done
