#!/usr/bin/env python3
"""Stored changes that rewrite the chain-id line of write_pdb's mmCIF branch stopped applying when that line was repaired
(F22).  usage: tools/port_blank_chain.py <ID> ...  - rebuilds seeded/<ID>/patch.diff against the current /repo: the
original patch (kept as patch.orig.diff) is applied to the pre-repair file (commit 7f71a99) and the repair - a missing
chain id is written as a blank - is re-expressed on the changed line."""
import os, re, shutil, subprocess, sys, tempfile

HERE = os.path.dirname(os.path.dirname(os.path.abspath(__file__)))
F = "src/rnapolis/parser_v2.py"
old = subprocess.run(["git", "-C", "/repo", "show", "7f71a99:" + F], capture_output=True, text=True, check=True).stdout
cur = open("/repo/" + F).read()
for x in sys.argv[1:]:
    d = os.path.join(HERE, "seeded", x)
    if not os.path.exists(f"{d}/patch.orig.diff"):
        shutil.copy(f"{d}/patch.diff", f"{d}/patch.orig.diff")
    tmp = tempfile.mkdtemp(prefix="port-")
    for side in "ab":
        os.makedirs(f"{tmp}/{side}/src/rnapolis")
    open(f"{tmp}/b/{F}", "w").write(old)
    subprocess.run(["patch", "-p1", "-s", "-i", f"{d}/patch.orig.diff"], cwd=f"{tmp}/b", check=True)
    src = open(f"{tmp}/b/{F}").read()
    pat = re.compile(r'(?m)^(\s*)("chainID": |chainID=)str\((row\.get\((?:cif_\w+\["chainID"\]|"auth_asym_id", row\.get\("label_asym_id"\))\))\),$')
    hits = pat.findall(src)
    assert len(hits) == 1, (x, hits)
    src = pat.sub(lambda m: f'{m.group(1)}{m.group(2)}("" if pd.isna({m.group(3)}) else str({m.group(3)})),', src)
    compile(src, F, "exec")
    open(f"{tmp}/b/{F}", "w").write(src)
    open(f"{tmp}/a/{F}", "w").write(cur)
    p = subprocess.run(["diff", "-u", "a/" + F, "b/" + F], cwd=tmp, capture_output=True, text=True)
    open(f"{d}/patch.diff", "w").write(p.stdout)
    shutil.rmtree(tmp)
    print(x, "ported,", len(p.stdout.splitlines()), "lines")
