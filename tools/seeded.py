#!/usr/bin/env python3
"""Verify an independently written change and run the checks against it.

usage: tools/seeded.py <worktree-dir> <letter> [--props C03,C11] [--tier quick] [--skip-tests]
Copies /repo (without .git) to a scratch dir outside /repo and /verif, confirms
demo passes on the original, applies the patch, confirms the demo fails and the
existing suite still has its 45 passes, runs ./check <prop> with VERIF_REPO
pointing at the scratch copy, stores everything under /verif/seeded/<ID>-<letter>/
and removes the scratch copy."""
import argparse
import json
import os
import re
import shutil
import subprocess
import sys
import tempfile

HERE = os.path.dirname(os.path.dirname(os.path.abspath(__file__)))
PY = "/venv/bin/python"


def sh(cmd, cwd, env=None, timeout=3600):
    p = subprocess.run(cmd, cwd=cwd, env=env, capture_output=True, text=True, timeout=timeout)
    return p.returncode, p.stdout + p.stderr


def _suite_ok(summary):
    # baseline: 45 passed, 7 failed (offline). A change may make one of the 7
    # offline failures pass by coincidence (46/6); none of the 45 may fail.
    m = re.search(r"(\d+) failed, (\d+) passed", summary)
    return bool(m) and int(m.group(2)) >= 45 and int(m.group(1)) + int(m.group(2)) == 52


def main():
    ap = argparse.ArgumentParser()
    ap.add_argument("wt")
    ap.add_argument("letter")
    ap.add_argument("--props")
    ap.add_argument("--tier", default="quick")
    ap.add_argument("--skip-tests", action="store_true")
    ap.add_argument("--no-store", action="store_true")
    a = ap.parse_args()
    wt = a.wt.rstrip("/")
    meta_src = json.load(open(f"{wt}/meta_{a.letter}.json"))
    pid = meta_src["property"]
    sid = f"{pid}-{a.letter}"
    props = a.props.split(",") if a.props else [pid]
    d = tempfile.mkdtemp(prefix="vmon-seed-")
    out = {"id": sid, "property": pid, "summary": meta_src.get("summary"), "needs": meta_src.get("needs"), "files": meta_src.get("files")}
    try:
        subprocess.run(["rsync", "-a", "--exclude", ".git", "/repo/", d + "/"], check=True)
        shutil.copy(f"{wt}/demo_{a.letter}.py", f"{d}/demo_{a.letter}.py")
        # demos often refer to their own worktree path: point them at the scratch copy
        txt = open(f"{d}/demo_{a.letter}.py").read().replace(wt, d)
        open(f"{d}/demo_{a.letter}.py", "w").write(txt)
        env = dict(os.environ, PYTHONPATH=f"{d}/src", LOGLEVEL="CRITICAL")
        rc0, o0 = sh([PY, f"demo_{a.letter}.py"], d, env, 600)
        out["demo_on_original_rc"] = rc0
        rcp, op = sh(["patch", "-p1", "-i", f"{wt}/mutant_{a.letter}.diff"], d)
        out["patch_applies"] = rcp == 0
        if rcp != 0:
            out["patch_output"] = op[-500:]
        rc1, o1 = sh([PY, f"demo_{a.letter}.py"], d, env, 600)
        out["demo_with_change_rc"] = rc1
        out["demo_with_change_tail"] = o1[-400:]
        if not a.skip_tests:
            rct, ot = sh([PY, "-m", "pytest", "-q", "-p", "no:cacheprovider", "--timeout=900", "--continue-on-collection-errors"], d, env, 3600)
            m = re.search(r"(\d+) failed, (\d+) passed", ot)
            out["suite_with_change"] = m.group(0) if m else ot[-200:]
            if not _suite_ok(out["suite_with_change"]):
                # hypothesis deadlines make the suite flaky on a loaded machine: one retry
                out["suite_first_attempt"] = out["suite_with_change"]
                rct, ot = sh([PY, "-m", "pytest", "-q", "-p", "no:cacheprovider", "--timeout=900", "--continue-on-collection-errors"], d, env, 3600)
                m = re.search(r"(\d+) failed, (\d+) passed", ot)
                out["suite_with_change"] = m.group(0) if m else ot[-200:]
        out["confirmed"] = bool(rc0 == 0 and rcp == 0 and rc1 != 0 and (a.skip_tests or _suite_ok(out.get("suite_with_change", ""))))
        checks = {}
        for prop in props:
            env2 = dict(os.environ, VERIF_REPO=d)
            rc, o = sh([os.path.join(HERE, "check"), prop, "--tier", a.tier, "--no-evidence"], HERE, env2, 7200)
            lines = [l for l in o.splitlines() if l.startswith(("VIOLATION", "INCONCLUSIVE", "  NEW violation", "KNOWN-FINDING")) or "HELD" in l]
            wit = [l for l in o.splitlines() if l.startswith("  witness:")]
            checks[prop] = {"rc": rc, "lines": [l[:300] for l in lines[:6]], "witness": wit[0][:500] if wit else None}
        out["checks"] = checks
        out["caught_by"] = [p for p, c in checks.items() if c["rc"] == 1]
        out["ran"] = f"tools/seeded.py {wt} {a.letter} --props {','.join(props)} --tier {a.tier} (scratch copy of /repo, patch -p1, demo before/after, full suite, ./check with VERIF_REPO)"
    finally:
        shutil.rmtree(d, ignore_errors=True)
    print(json.dumps({k: out[k] for k in ("id", "confirmed", "demo_on_original_rc", "demo_with_change_rc", "suite_with_change", "caught_by") if k in out}))
    for p, c in out.get("checks", {}).items():
        print("  ", p, c["rc"], c["lines"][:3])
    if not a.no_store and out.get("confirmed"):
        dst = os.path.join(HERE, "seeded", sid)
        os.makedirs(dst, exist_ok=True)
        shutil.copy(f"{wt}/mutant_{a.letter}.diff", f"{dst}/patch.diff")
        open(f"{dst}/demo.py", "w").write(open(f"{wt}/demo_{a.letter}.py").read().replace(wt, "<WORKTREE>"))
        json.dump(out, open(f"{dst}/meta.json", "w"), indent=1)
    return 0


if __name__ == "__main__":
    sys.exit(main())
