#!/bin/bash
# usage: tools/seeded_batch.sh <letter> [<letter> ...]     (worktrees /tmp/wt/cNN with mutant_X.diff / demo_X.py / meta_X.json)
# Runs tools/seeded.py for every worktree that holds deliverables for the given letters, 4 at a time,
# logs to /tmp/seedlog/cNN_X.log, then prints one status line per change.
cd "$(dirname "$0")/.."
mkdir -p /tmp/seedlog
jobs=()
for d in /tmp/wt/c*; do
  w=$(basename "$d")
  for l in "$@"; do
    [ -f "$d/mutant_$l.diff" ] && [ ! -s "/tmp/seedlog/${w}_$l.log" ] && jobs+=("$w $l")
  done
done
printf '%s\n' "${jobs[@]}" | grep . | xargs -P 4 -I{} bash -c 'set -- {}; tools/seeded.py /tmp/wt/$1 $2 > /tmp/seedlog/$1_$2.log 2>&1'
tools/seeded_status.sh
