#!/bin/bash
# usage: tools/trymut.sh <worktree name, e.g. c07> <letter> <PROP> [tier]
# Applies /tmp/wt/<worktree>/mutant_<letter>.diff to a scratch copy of /repo and runs ./check PROP against it.
d=$(mktemp -d /tmp/vs-XXXXXX); rsync -a --exclude .git /repo/ $d/; (cd $d && patch -p1 -s < /tmp/wt/$1/mutant_$2.diff) || echo PATCH-FAILED
cd "$(dirname "$0")/.." && VERIF_REPO=$d ./check $3 --tier ${4:-quick} --no-evidence 2>&1 | grep -E "NEW viol|witness|VIOLATION|HELD|INCONCL" | cut -c1-600
rm -rf $d
