#!/usr/bin/env python3
import json, os, glob
H = os.path.dirname(os.path.dirname(os.path.abspath(__file__)))
hist = json.load(open(os.path.join(H, "seeded", "history.json")))
rows = []
for d in sorted(glob.glob(os.path.join(H, "seeded", "C*"))):
    m = json.load(open(os.path.join(d, "meta.json")))
    sid = m["id"]
    c = m.get("checks", {})
    first = next(iter(c.values()), {})
    clause = "; ".join(l.split("clause=")[1].split(" ")[0] for l in first.get("lines", []) if "clause=" in l) or "-"
    h = hist.get(sid, {})
    rows.append(f"| {sid} | {(m.get('summary') or '')[:170]} | {', '.join(m.get('caught_by') or []) or 'NONE'} | {clause[:90]} | {h.get('first_run', 'caught')} |")
print("| id | change | caught by | first violated clause(s) | first run |")
print("|---|---|---|---|---|")
print("\n".join(rows))
