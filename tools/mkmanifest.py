#!/usr/bin/env python3
"""Regenerates /verif/MANIFEST.json from the table below (keeps it valid)."""
import json, os, importlib, sys

HERE = os.path.dirname(os.path.dirname(os.path.abspath(__file__)))
sys.path.insert(0, HERE)

CHECKS = {
    "C01": ("contracts on the real encoders/decoders + reference bracket decoder", "4.C01",
            "Every produced notation of every observed execution is decoded by an independent per-type stack decoder and compared with the input pair set; exhaustive over all pairings of N<=8 (quick) / N<=10 (thorough) plus tens of thousands of random/hostile structures (mixed-case sequences with '?' placeholders), balanced strings over 30 bracket types, multi-strand texts cut from one notation, nine-stem groups, and the per-strand texts the 3D mapping derives for hostile residue orders. Held-on-observed, not a proof."),
    "C02": ("contract on dot_bracket/convert_to_dot_bracket + exact branch-and-bound optimiser as reference model", "4.C02",
            "The objective value of the notation the real MILP path returns is compared (integers) with an independent exact optimum per conflict component, for every pairing up to N and random multi-stem knots where FCFS is sub-optimal; the same pairing reached through other constructors (parsed from non-optimal notations / BPSEQ text), a structure with more than a thousand stems, and 30 mutually crossing stems through the MILP path; the 3D entry point with and without the all-dot-brackets option (same notation, member of the list)."),
    "C03": ("contract on annotator.find_pairs + dense O(n^2) H-bond/edge/torsion reference model with margins", "4.C03",
            "Every reported pair and every candidate edge combination of every observed execution (corpus, rigid/jitter/thinning perturbations, threshold-sweeping two-residue placements) is judged by an independent dense evaluator; quantities within 1e-6 of a threshold are undecided; all NMR models in one structure with an explicit model; texts with nearly superposed copies of residues, and texts whose PDB fields are filled to their edges, read by the real reader and compared with the annotation of the written atoms; threshold-grazing placements (one decision quantity bisected to +-2e-3..2e-5 of its limit, also 9000 A from the origin); more than 65 535 residues in one model; the chain table-level reader -> fit_to_pdb -> write_pdb -> residue-level reader before annotation; PDB texts whose serials pass 99999; mmCIF with a canonical sequence and uninformative component names; chain names differing by letter case; bases reduced to their three plane atoms; the pairs of the public entry points for a requested model of a multi-model structure."),
    "C04": ("contract on annotator.find_stackings + dense stacking reference model with margins", "4.C04",
            "Soundness and completeness of the stacking list against an O(n^2) evaluation of centroid distance, inter-normal angle and offset angle; placements sweep each quantity across its threshold; the list must be ordered as the residues are; CLI CSV written onto a reused path; files with filled fields against the written atoms; threshold-grazing placements on centroid distance, normal and offset angles; PDB texts whose ATOM serials pass 99999 half-way; single-chain mmCIF with the canonical sequence whose first/last residues carry uninformative component names."),
    "C05": ("metamorphic twins through the real annotator, outputs compared modulo renaming, margins measured", "4.C05",
            "Each case and its presentation twin (rigid motion, atom order, order-preserving relabelling, PDB vs mmCIF text of the same table) run through extract_secondary_structure; lists and 2D texts must be equal; pairs with a decision quantity within 1e-6 of a threshold in either member are excluded by measurement; hostile bases (insertion codes, reversed orders, negative numbers) and process-history families (other conformations with the same identifiers annotated first) under every twin kind; format twins with gap detection and with generated alternate conformers whose best-occupied conformer is not the first one; a corpus entry deposited in both formats through library and CLI; the file itself in another frame (chains of superposed atoms); field-edge and atom-on-origin format twins; format twins written by the library for a selection of ensemble models; an eight-copy assembly under a rigid motion."),
    "C06": ("contracts on the Mapping2D3D outputs + independent numbering/canonical-conflict/row decoder model", "4.C06",
            "For corpus structures x (own annotation | random hostile pair lists) x gap detection, the BPSEQ, per-strand text, all-dot-brackets and extended rows are decoded and compared with an independent model of numbering, canonical filtering, conflicts and class orientation; hostile residue orders (non-contiguous chains, long insertion-code runs); the command-line tool's stdout and BPSEQ file against the library's texts for the same file."),
    "C07": ("contract on BpSeq.elements + independent decomposition reference model", "4.C07",
            "Every observed decomposition is compared with maximal stacked runs, hairpin pairs, loop closure and an interior-coverage count per unpaired nucleotide; exhaustive small scope + random; decompositions requested while the MILP back-end fails transiently are compared with the notation the object answers with afterwards; motif_extractor run in-process on BPSEQ and non-canonical dot-bracket inputs (printed strands must be slices of the printed notation); the decomposition of structures obtained from 3D and of structures read from BPSEQ text in other programs' layouts; the source re-judged after derived structures were requested and after the explicit entry point was used; crossing stems of three pairs on letter brackets."),
    "C08": ("contract on parser.read_3d_structure vs expected atom multiset from a known abstract table", "4.C08",
            "Generated and corpus tables are emitted as PDB and mmCIF by an independent emitter; every read (default, each model, absent model) is compared with the expected atom multiset per model; all NMR models of the corpus ensembles; the raw corpus files (gzip, MODRES, entity categories) against an independently read table, with and without nucleic_acid_only; label-only mmCIF, six-digit serials, CRLF / stripped / tabbed texts, number spellings, pairs 0.5004-0.5009 A apart, an 80 005-atom table, the same path rewritten with content of the same size."),
    "C09": ("round-trip twins through parser_v2 + 80-column grammar and record automaton on every write_pdb result", "4.C09",
            "Four write/read paths per table compared field by field with the abstract table; every written PDB document is parsed by an independent column grammar and a record-sequence automaton; a third of the round trips use the other documented input/output object kinds (StringIO, text/binary handles, paths); serial numbers restarting per model; more than 65 536 atom lines; blank chain ids on both paths that start from PDB."),
    "C10": ("contract on fit_to_pdb + independent feasibility test + bijection check + write/read back", "4.C10",
            "Tables within and beyond PDB limits (incl. >62 chains, >9999 residues per chain, >99999 atoms in thorough, residues with non-contiguous records, derived/subset frames) are fitted; result judged for limits, field preservation, one-to-one renaming, refusal iff infeasible, and survival of write_pdb/parse_pdb_atoms; chain names that are runs of consecutive one-character ids (AB, Za, 12); atoms without any chain id; the splitter tool writing an ensemble whose later models pass the serial limit; tables with only one of the optional author name items."),
    "C11": ("contracts on find_pairs/find_stackings + frozen Saenger/Zirbel tables + re-read CSV/JSON", "4.C11",
            "Well-formedness clauses (duplicates, self, membership, orientation, sortedness, Saenger, BPh/BR donor contact and class, one class per pair) judged on every observed annotation including all NMR models, crowded structures and nucleotides listed in two parts; CSV/JSON written onto paths that already hold another result; chain names whose order depends on letter case; annotations imported from FR3D listings (short and nine-field unit ids, insertion codes) judged for participants, self-joins and repeats."),
    "C12": ("recorded call histories on object pools checked step by step against a fresh-object model", "4.C12",
            "History monitor: after each public call on any pool object, all objects must still print/pair as at creation and the answer must equal a fresh copy's answer; all 2-step orders on hostile structures + random histories; a homologous sibling queried first; molecules of > 1000 nucleotides / > 100 stems."),
    "C13": ("fault/configuration injection at the PuLP boundary; complete matrix enumeration", "4.C13",
            "All 13 cells of {HiGHS-stub,CBC,none} x {ok,raise,4 bad statuses} x both entry points are enumerated for every knotted input; inputs are sampled. A missing cell makes the run inconclusive. Every knotted matching on up to 8 positions through both fallback routes; 11-12 bracket levels under every cell; a derived structure requested first; hundreds of regions open at once; optimal answers with unset or noisy zero variables; a not-solved answer carrying an incumbent. The notation asked for through the 3D mapping under every cell, and the CLI's stdout under three log levels in fresh interpreters."),
    "C14": ("recorded outputs of fresh interpreters under different hash seeds, offline byte comparison", "4.C14",
            "Every tool/library output for each (tool, options, input) triple is recorded under 3 (quick) / 6 (thorough) hash seeds plus an in-process repetition and compared byte for byte; several related inputs handled in a row by one interpreter must print what a fresh interpreter prints for each; external pair lists with same-rank conflicts through the adapter; an input whose base type cannot be decided from its atoms inside a batch; format conversion in a row; FR3D listings with repeated rows; a nearly identical input right after the original; eight crossing helices (8! notations); a chain numbered from zero with competing pairs; chains named A / a numbered alike with a nucleotide paired into both; the witness is the first differing line."),
    "C15": ("differential twins: 2 reader generations x 2 formats compared as maps with each other and the abstract table", "4.C15",
            "Residue sets, atom sets, coordinates, pairwise connectivity (also exactly on the 2.4 A limit, where the readers must agree with each other), connected segments and |chi| from four readings of the same single-conformer table must agree; zero occupancies, five-digit serials, caller-side reordering of atom lists, asterisk spelling of primes, residues lacking one atom of the chi definition (the same residues must have a chi in every reading), nucleic-acid-only readings; mmCIF members whose label_comp_id differs from auth_comp_id."),
    "C16": ("contract on all_dot_brackets + Grundy-colouring enumerator as reference model", "4.C16",
            "Set equality between the library's list and an independent enumeration of greedy-stable assignments, exhaustive over pairings up to N plus random multi-component knots, groups of exactly eight stems and sparse groups of nine (ten in thorough) stems; structures obtained from 3D and through the external-tool adapter."),
    "C17": ("contract on find_clashes (all 32 option combinations) + O(n^2) reference + in-process CLI with parsed stdout/CSV", "4.C17",
            "Set equality of the clash list with a dense enumeration for every option combination on corpus, scaled/jittered and synthetic partial-occupancy structures; printed maxima (within a chain and between chains, chains in either order) and CSV rows compared with the list; residues sharing a position, superposed atoms; the tool's list against the library's list for the file read the default way; deposited files as they are (ligands outside polymer entities, no experiment categories, PDB format); the list for the written atoms (occupancy spellings); every atom listed with its own residue; CSV paths that already hold a result; library-converted mmCIF with insertion codes."),
    "C18": ("contracts on both torsion functions judging every call against an independent dihedral + constructive builder", "4.C18",
            "Every call of either torsion implementation made by any workload (builder quadruples under rigid motions, reversal, mirroring; corpus chi/backbone torsions via Residue3D.chi, the annotator and Structure.torsion_angles) is compared with an IUPAC reference validated against a constructive builder in the same run; chi read after a full 2D analysis of the same object must equal the dihedral of the atoms' own coordinates; chi of re-emitted tables with shuffled item order, stripped bases, integer points, PDB fields filled to their edges, residues of unknown base type; bond angles to within 0.006 degrees of linear; every backbone torsion the table reports compared with the torsion over atoms bonded in sequence; components named after another base; the tool's inter-stem table read back (torsions equal the library's, in (-180, 180])."),
    "C19": ("contracts on the FR3D/DSSR importers + regular-expression reference of the label language", "4.C19",
            "Label space exhaustive to length 4 (quick) / 6 over a reduced alphabet (thorough); generated listings and DSSR documents judged against a unit-id grammar and resolvable-name oracle; multi-model DSSR documents incl. model numbers that are not 1..n."),
    "C20": ("contracts on copy_from_to/replace_value + in-process CLI twin, frames compared by an independent CIF tokenizer", "4.C20",
            "Input and output documents are parsed by an independent tokenizer and compared cell by cell; the CLI is run in-process on the same content and compared byte for byte with the library result; multi-block documents (blocks after the first must survive unchanged); incomplete CLI modes must write nothing; data names indented or on the loop_ line."),
}

LEVEL_NOTE = {
    "C01": "trusts vmon/oracles/o2d.py decoder; CBC as installed; <=30 levels; ladder30 only through FCFS (CBC needs >20 min)",
    "C02": "trusts the branch-and-bound reference (cross-checked exhaustively against CBC up to N); components >14 stems undecided; HiGHS absent",
    "C03": "frozen donor/acceptor/edge tables are the specification; three-atom base normal; one_letter_name trusted",
    "C04": "offset-angle direction reading documented in DESIGN.md 4.C04 (sound: undirected, complete: directed)",
    "C05": "margins by the dense evaluator; T4 only for tables inside PDB limits with non-blank chain ids",
    "C06": "is_nucleotide trusted; canonical rule and class orientation convention documented in DESIGN.md 4.C06",
    "C07": "interior convention documented in DESIGN.md 4.C07; slices compared with the text elements itself used",
    "C08": "emitter is part of the trusted base; lenient justification of dropped atoms; PDB blank occupancy outside the domain",
    "C09": "blank chain ids where the table starts as PDB (PDB->PDB, PDB->mmCIF->PDB); tolerance 0.001/0.01 as stated",
    "C10": "feasibility conditions frozen in vmon/props/c10.py; a blank optional field equals a missing one",
    "C11": "frozen Saenger table checked reverse-symmetric at start-up; Zirbel classes frozen",
    "C12": "fresh-object model rebuilt from the text at creation; all_dot_brackets compared as a set",
    "C13": "HiGHS configuration is an interface-compatible stub delegating to CBC; faults injected at actualSolve/status",
    "C14": "hash seeds sampled, not enumerated; third-party libraries assumed deterministic given the seed",
    "C15": "single-conformer decided on the abstract table; only |chi| compared (sign is C18's known finding)",
    "C16": "components up to 8 stems in general, designated sparse groups of 9 (thorough: 10) stems (enumeration is factorial inside the library)",
    "C17": "frozen radii; typing by first letter of the stripped name; null occupancy = 1; is_nucleotide trusted",
    "C18": "reference dihedral formula validated by construction; tolerance 1e-9; degenerate geometry (sine product < 1e-3) skipped",
    "C19": "label/unit-id grammar is the specification side; decorated non-LW labels, liberal-int numbers and labels that only Unicode case mapping turns into LW labels undecided",
    "C20": "category order in the file is not demanded (the third-party writer moves atom_site last); alphabet overflow outside the statement",
}


def main():
    checks = []
    for pid in sorted(CHECKS):
        tech, ref, text = CHECKS[pid]
        mod = importlib.import_module(f"vmon.props.{pid.lower()}")
        checks.append({
            "property_id": pid,
            "quick_cmd": f"./check {pid} --tier quick",
            "thorough_cmd": f"./check {pid} --tier thorough",
            "evidence_file": f"evidence/{pid}.json",
            "replay_cmd_template": f"./check {pid} --replay {{path}}",
            "engine": "vmon",
            "level_claimed": {"category": mod.LEVEL, "text": text, "design_ref": f"DESIGN.md {ref}"},
            "level_note": LEVEL_NOTE[pid],
            "technique": "runtime monitoring: " + tech,
        })
    props = [json.loads(l)["id"] for l in open(os.path.join(HERE, "properties.jsonl"))]
    na = [{"property_id": p, "reason": NOT_YET.get(p, "check not built yet in this session; planned (see DESIGN.md section 4)")} for p in props if p not in CHECKS]
    man = {
        "version": 1,
        "setup_cmd": "./setup.sh",
        "hooks": {
            "guard": "RNAPOLIS_VERIF",
            "enable": "no in-repo hooks: monitors are attached from /verif at import time (vmon.core.wrap); RNAPOLIS_VERIF=1 is set in worker processes only",
            "baseline_off_cmd": "cd /repo && /venv/bin/python -m pytest -ra -q -p no:cacheprovider --timeout=900 --continue-on-collection-errors",
            "source_commits": [],
            "add_only": True,
        },
        "engines": [{"name": "vmon", "path": "vmon/", "serves_properties": sorted(CHECKS), "kind_free_text": "in-house runtime monitoring framework: attach layer (contracts on real functions), reference-model oracles, history/metamorphic/fault-injection workloads, sys.monitoring reach map, sharded subprocess workers"}],
        "checks": checks,
        "not_applicable": na,
        "notes": "All checks rebuild nothing: they import /repo/src directly (VERIF_REPO overrides). Exit 0 held / 1 VIOLATION / 2 INCONCLUSIVE. Known findings in known_findings.json keyed by mechanism.",
    }
    with open(os.path.join(HERE, "MANIFEST.json"), "w") as f:
        json.dump(man, f, indent=1)
        f.write("\n")


NOT_YET = {}
if __name__ == "__main__":
    main()
