#!/usr/bin/env python3
"""Stored changes that rewrite parser.try_parse_int stopped applying when that function was repaired (F21).
usage: tools/port_try_parse_int.py <ID> ...   - rebuilds seeded/<ID>/patch.diff against the current /repo from the new
function body in seeded/<ID>/patch.orig.diff (created from patch.diff on first use)."""
import os, re, shutil, subprocess, sys, tempfile

HERE = os.path.dirname(os.path.dirname(os.path.abspath(__file__)))
cur = open("/repo/src/rnapolis/parser.py").read()
cur_fn = re.search(r"def try_parse_int\(.*?\n(?=\n\n|\Z)", cur, re.S).group(0)
for x in sys.argv[1:]:
    d = os.path.join(HERE, "seeded", x)
    if not os.path.exists(f"{d}/patch.orig.diff"):
        shutil.copy(f"{d}/patch.diff", f"{d}/patch.orig.diff")
    lines = open(f"{d}/patch.orig.diff").read().splitlines()
    start = [i for i, l in enumerate(lines) if l.startswith(("+def try_parse_int", " def try_parse_int"))][0]
    new = []
    for k, l in enumerate(lines[start:]):
        if l.startswith("-"):
            continue
        if l[:1] not in "+ " and l != "":
            break
        body = l[1:]
        if k > 0 and body and not body.startswith((" ", "\t")):
            break
        new.append(body)
    while new and not new[-1].strip():
        new.pop()
    new_fn = "\n".join(new) + "\n"
    assert new_fn.startswith("def try_parse_int"), new_fn[:60]
    tmp = tempfile.mkdtemp(prefix="port-")
    for side in "ab":
        os.makedirs(f"{tmp}/{side}/src/rnapolis")
    newsrc = cur.replace(cur_fn, new_fn, 1)
    compile(newsrc, "parser.py", "exec")
    open(f"{tmp}/a/src/rnapolis/parser.py", "w").write(cur)
    open(f"{tmp}/b/src/rnapolis/parser.py", "w").write(newsrc)
    p = subprocess.run(["diff", "-u", "a/src/rnapolis/parser.py", "b/src/rnapolis/parser.py"], cwd=tmp, capture_output=True, text=True)
    open(f"{d}/patch.diff", "w").write(p.stdout)
    shutil.rmtree(tmp)
    print(x, "ported,", len(p.stdout.splitlines()), "lines")
