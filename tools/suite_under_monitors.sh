#!/bin/bash
# Runs the repository's test-suite with all call-judging monitors attached.
# Writes reports/suite_under_monitors.json and prints a summary.
cd "$(dirname "$0")/.."
V=$PWD
R=${VERIF_REPO:-/repo}
export VMON_SUITE_OUT=$V/reports/suite_under_monitors.json
cd $R && PYTHONPATH=$V VERIF_REPO=$R LOGLEVEL=CRITICAL /venv/bin/python -m pytest -q -p no:cacheprovider -p vmon.pytest_plugin --timeout=1800 --continue-on-collection-errors \
   --deselect tests/test_rfam_folder.py 2>&1 | tail -12
cd $V && /venv/bin/python - <<'P'
import json
d=json.load(open('reports/suite_under_monitors.json'))
print("monitor calls:", d["monitor_calls"])
bad={c:v for c,v in d["clauses"].items() if v[1]}
print("clauses judged:", len(d["clauses"]), "with violations:", bad)
for v in d["violations"][:6]:
    print(" VIOLATION", v["clause"], v["mechanism"], json.dumps(v["detail"],default=str)[:400])
print("monitor faults:", d.get("monitor_faults"))
P
