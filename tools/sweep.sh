#!/bin/bash
# usage: [CHECKS="C03 C05"] tools/sweep.sh <tier> <seed>...   (evidence is NOT rewritten)
cd "$(dirname "$0")/.."
tier=$1; shift
for seed in "$@"; do
  for p in ${CHECKS:-C01 C02 C03 C04 C05 C06 C07 C08 C09 C10 C11 C12 C13 C14 C15 C16 C17 C18 C19 C20}; do
    s=$(date +%s)
    out=$(VERIF_SEED=$seed ./check $p --tier $tier --no-evidence 2>&1)
    rc=$?
    e=$(( $(date +%s) - s ))
    echo "seed=$seed $p rc=$rc ${e}s $(echo "$out" | grep -E 'VIOLATION|INCONCLUSIVE|HELD' | tail -1)"
    if [ $rc -ne 0 ]; then echo "$out" | grep -E "NEW|witness|PROBLEM" | cut -c1-600; fi
  done
done
