#!/usr/bin/env python3
"""Prints, from evidence/<ID>.json, the workload families and clauses each check currently has (markdown);
used for the inventory at the end of DESIGN.md section 4."""
import glob, json, os
HERE = os.path.dirname(os.path.dirname(os.path.abspath(__file__)))
print("| check | cases (quick) | workload families (cases) | clauses decided (ok / undecided / skipped) |")
print("|---|---|---|---|")
for f in sorted(glob.glob(os.path.join(HERE, "evidence", "C*.json"))):
    e = json.load(open(f))
    c = e["coverage"]
    fam = ", ".join(f"{k} ({v})" for k, v in sorted(c["families"].items()))
    cl = ", ".join(f"{k} ({v['ok']}/{v['undecided']}/{v['skipped']})" for k, v in sorted(c["clauses"].items()) if v["ok"] + v["undecided"] + v["skipped"] + v["violation"] > 0)
    print(f"| {e['property_id']} | {c['evaluations']} | {fam} | {cl} |")
