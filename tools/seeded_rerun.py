#!/usr/bin/env python3
"""Re-run the quick tier of the property's own check against every stored
independently written change (seeded/<ID>-<letter>/patch.diff) and report the
ones that are no longer caught.  Regression test of the machinery itself.

usage: tools/seeded_rerun.py [--jobs 3] [--only C05,C14] [--tier quick]
Each change is applied to a scratch copy of /repo/src outside /repo and /verif
(removed afterwards); the check runs with VERIF_REPO pointing at the copy."""
import argparse
import concurrent.futures as cf
import glob
import json
import os
import shutil
import subprocess
import sys
import tempfile

HERE = os.path.dirname(os.path.dirname(os.path.abspath(__file__)))


def one(d, tier):
    meta = json.load(open(os.path.join(d, "meta.json")))
    sid, prop = meta["id"], meta["property"]
    scratch = tempfile.mkdtemp(prefix="vmon-rerun-")
    try:
        subprocess.run(["rsync", "-a", "--exclude", ".git", "--exclude", "tests/__pycache__", "/repo/", scratch + "/"], check=True)
        p = subprocess.run(["patch", "-p1", "-s", "-i", os.path.join(d, "patch.diff")], cwd=scratch, capture_output=True, text=True)
        if p.returncode != 0:
            return sid, "patch-failed", p.stdout[-200:]
        env = dict(os.environ, VERIF_REPO=scratch)
        r = subprocess.run([os.path.join(HERE, "check"), prop, "--tier", tier, "--no-evidence"], cwd=HERE, env=env, capture_output=True, text=True, timeout=7200)
        lines = [l for l in r.stdout.splitlines() if l.startswith(("  NEW violation", "INCONCLUSIVE"))]
        return sid, {0: "MISSED", 1: "caught", 2: "INCONCLUSIVE"}.get(r.returncode, f"rc={r.returncode}"), "; ".join(l.strip()[:110] for l in lines[:2])
    finally:
        shutil.rmtree(scratch, ignore_errors=True)


def main():
    ap = argparse.ArgumentParser()
    ap.add_argument("--jobs", type=int, default=3)
    ap.add_argument("--only")
    ap.add_argument("--tier", default="quick")
    ap.add_argument("--shuffle", help="seed: run in a random order (a run that is cut short is then a uniform sample)")
    ap.add_argument("--skip", help="file with the output of an earlier run: changes already reported there are skipped")
    a = ap.parse_args()
    dirs = sorted(glob.glob(os.path.join(HERE, "seeded", "C*")))
    if a.skip and os.path.exists(a.skip):
        done = {l.split()[0] for l in open(a.skip) if l.strip() and l.split()[0][:1] == "C"}
        dirs = [d for d in dirs if os.path.basename(d) not in done]
    if a.shuffle:
        import random

        random.Random(a.shuffle).shuffle(dirs)
    if a.only:
        keep = set(a.only.split(","))
        dirs = [d for d in dirs if os.path.basename(d).split("-")[0] in keep or os.path.basename(d) in keep]
    bad = 0
    with cf.ThreadPoolExecutor(max_workers=a.jobs) as ex:
        for sid, status, info in ex.map(lambda d: one(d, a.tier), dirs):
            print(f"{sid:8s} {status:12s} {info}", flush=True)
            bad += status != "caught"
    print(f"{len(dirs)} changes, {bad} not caught")
    return 1 if bad else 0


if __name__ == "__main__":
    sys.exit(main())
