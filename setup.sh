#!/bin/bash
# Offline setup: nothing to build or install. The framework is pure Python and
# uses /venv/bin/python (the repository's interpreter) with only the
# repository's own dependencies. Verifies that the interpreter and rnapolis import.
set -e
cd "$(dirname "$0")"
VERIF_REPO="${VERIF_REPO:-/repo}" PYTHONPATH="$PWD" /venv/bin/python -c "from vmon import core; core.setup_path(); import rnapolis.common, rnapolis.annotator, rnapolis.parser_v2; print('vmon setup ok')"
